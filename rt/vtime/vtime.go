// Package vtime mirrors package time; the clock, timers and tickers are served
// by the controlled scheduler's virtual clock while an execution is running.
package vtime

import (
	"time"

	rt "github.com/enbility/spine-go/internal/verifrt"
)

type (
	Duration   = time.Duration
	Time       = time.Time
	Month      = time.Month
	Weekday    = time.Weekday
	Location   = time.Location
	ParseError = time.ParseError
)

const (
	Layout      = time.Layout
	ANSIC       = time.ANSIC
	UnixDate    = time.UnixDate
	RubyDate    = time.RubyDate
	RFC822      = time.RFC822
	RFC822Z     = time.RFC822Z
	RFC850      = time.RFC850
	RFC1123     = time.RFC1123
	RFC1123Z    = time.RFC1123Z
	RFC3339     = time.RFC3339
	RFC3339Nano = time.RFC3339Nano
	Kitchen     = time.Kitchen
	Stamp       = time.Stamp
	StampMilli  = time.StampMilli
	StampMicro  = time.StampMicro
	StampNano   = time.StampNano
	DateTime    = time.DateTime
	DateOnly    = time.DateOnly
	TimeOnly    = time.TimeOnly

	Nanosecond  = time.Nanosecond
	Microsecond = time.Microsecond
	Millisecond = time.Millisecond
	Second      = time.Second
	Minute      = time.Minute
	Hour        = time.Hour

	January   = time.January
	February  = time.February
	March     = time.March
	April     = time.April
	May       = time.May
	June      = time.June
	July      = time.July
	August    = time.August
	September = time.September
	October   = time.October
	November  = time.November
	December  = time.December

	Sunday    = time.Sunday
	Monday    = time.Monday
	Tuesday   = time.Tuesday
	Wednesday = time.Wednesday
	Thursday  = time.Thursday
	Friday    = time.Friday
	Saturday  = time.Saturday
)

var (
	UTC   = time.UTC
	Local = time.Local
)

func ParseDuration(s string) (Duration, error)    { return time.ParseDuration(s) }
func FixedZone(name string, offset int) *Location { return time.FixedZone(name, offset) }
func LoadLocation(name string) (*Location, error) { return time.LoadLocation(name) }
func LoadLocationFromTZData(name string, data []byte) (*Location, error) {
	return time.LoadLocationFromTZData(name, data)
}
func Date(year int, month Month, day, hour, min, sec, nsec int, loc *Location) Time {
	return time.Date(year, month, day, hour, min, sec, nsec, loc)
}
func Parse(layout, value string) (Time, error) { return time.Parse(layout, value) }
func ParseInLocation(layout, value string, loc *Location) (Time, error) {
	return time.ParseInLocation(layout, value, loc)
}
func Unix(sec int64, nsec int64) Time { return time.Unix(sec, nsec) }
func UnixMicro(usec int64) Time       { return time.UnixMicro(usec) }
func UnixMilli(msec int64) Time       { return time.UnixMilli(msec) }

// StaticNow, when non-nil, is what Now returns outside a controlled execution
// (used by the input enumerators to make relative-time conversions exact).
var StaticNow *time.Time

func Now() Time {
	if rt.Active() && !rt.Aborting() {
		return rt.Now()
	}
	if StaticNow != nil {
		return *StaticNow
	}
	return time.Now()
}

func Since(t Time) Duration { return Now().Sub(t) }
func Until(t Time) Duration { return t.Sub(Now()) }

func Sleep(d Duration) {
	if rt.Active() {
		rt.Sleep(d)
		return
	}
	time.Sleep(d)
}

type Timer struct {
	C <-chan Time
	h *rt.TimerHandle
	n *time.Timer
	f func()
}

func AfterFunc(d Duration, f func()) *Timer {
	if !rt.Active() {
		return &Timer{n: time.AfterFunc(d, f)}
	}
	return &Timer{h: rt.SpawnTimer(d, f), f: f}
}

func NewTimer(d Duration) *Timer {
	if !rt.Active() {
		n := time.NewTimer(d)
		return &Timer{n: n, C: n.C}
	}
	c := rt.MakeChan[Time](1)
	f := func() { rt.TrySend(c, rt.Now()) }
	return &Timer{C: c, h: rt.SpawnTimer(d, f), f: f}
}

func After(d Duration) <-chan Time { return NewTimer(d).C }

func (t *Timer) Stop() bool {
	if t.n != nil {
		return t.n.Stop()
	}
	return t.h.Stop()
}

func (t *Timer) Reset(d Duration) bool {
	if t.n != nil {
		return t.n.Reset(d)
	}
	active := t.h.Stop()
	t.h = rt.SpawnTimer(d, t.f)
	return active
}

type Ticker struct {
	C <-chan Time
	h *rt.TickerHandle
	n *time.Ticker
}

func NewTicker(d Duration) *Ticker {
	if d <= 0 {
		panic("non-positive interval for NewTicker")
	}
	if !rt.Active() {
		n := time.NewTicker(d)
		return &Ticker{n: n, C: n.C}
	}
	c := rt.MakeChan[Time](1)
	return &Ticker{C: c, h: rt.SpawnTicker(d, c)}
}

func Tick(d Duration) <-chan Time { return NewTicker(d).C }

func (t *Ticker) Stop() {
	if t.n != nil {
		t.n.Stop()
		return
	}
	t.h.Stop()
}

func (t *Ticker) Reset(d Duration) {
	if t.n != nil {
		t.n.Reset(d)
		return
	}
	t.h.Reset(d)
}
