// Package vatomic mirrors sync/atomic on top of the controlled scheduler: every
// operation is a scheduling point followed by the native operation. Generated.
package vatomic

import (
	"sync/atomic"
	"unsafe"

	rt "github.com/enbility/spine-go/internal/verifrt"
)

func pt(p unsafe.Pointer) {
	if rt.Active() && !rt.Aborting() {
		rt.Point(rt.OpAtomic, p)
	}
}
func ptl(p unsafe.Pointer) {
	if rt.Active() && !rt.Aborting() {
		rt.Point(rt.OpAtomicLoad, p)
	}
}

func AddInt32(addr *int32, delta int32) int32 {
	pt(unsafe.Pointer(addr))
	return atomic.AddInt32(addr, delta)
}
func LoadInt32(addr *int32) int32     { ptl(unsafe.Pointer(addr)); return atomic.LoadInt32(addr) }
func StoreInt32(addr *int32, v int32) { pt(unsafe.Pointer(addr)); atomic.StoreInt32(addr, v) }
func SwapInt32(addr *int32, v int32) int32 {
	pt(unsafe.Pointer(addr))
	return atomic.SwapInt32(addr, v)
}
func CompareAndSwapInt32(addr *int32, old, new int32) bool {
	pt(unsafe.Pointer(addr))
	return atomic.CompareAndSwapInt32(addr, old, new)
}

type Int32 struct{ n atomic.Int32 }

func (x *Int32) Load() int32        { ptl(unsafe.Pointer(x)); return x.n.Load() }
func (x *Int32) Store(v int32)      { pt(unsafe.Pointer(x)); x.n.Store(v) }
func (x *Int32) Swap(v int32) int32 { pt(unsafe.Pointer(x)); return x.n.Swap(v) }
func (x *Int32) CompareAndSwap(old, new int32) bool {
	pt(unsafe.Pointer(x))
	return x.n.CompareAndSwap(old, new)
}
func (x *Int32) Add(d int32) int32 { pt(unsafe.Pointer(x)); return x.n.Add(d) }

func AddInt64(addr *int64, delta int64) int64 {
	pt(unsafe.Pointer(addr))
	return atomic.AddInt64(addr, delta)
}
func LoadInt64(addr *int64) int64     { ptl(unsafe.Pointer(addr)); return atomic.LoadInt64(addr) }
func StoreInt64(addr *int64, v int64) { pt(unsafe.Pointer(addr)); atomic.StoreInt64(addr, v) }
func SwapInt64(addr *int64, v int64) int64 {
	pt(unsafe.Pointer(addr))
	return atomic.SwapInt64(addr, v)
}
func CompareAndSwapInt64(addr *int64, old, new int64) bool {
	pt(unsafe.Pointer(addr))
	return atomic.CompareAndSwapInt64(addr, old, new)
}

type Int64 struct{ n atomic.Int64 }

func (x *Int64) Load() int64        { ptl(unsafe.Pointer(x)); return x.n.Load() }
func (x *Int64) Store(v int64)      { pt(unsafe.Pointer(x)); x.n.Store(v) }
func (x *Int64) Swap(v int64) int64 { pt(unsafe.Pointer(x)); return x.n.Swap(v) }
func (x *Int64) CompareAndSwap(old, new int64) bool {
	pt(unsafe.Pointer(x))
	return x.n.CompareAndSwap(old, new)
}
func (x *Int64) Add(d int64) int64 { pt(unsafe.Pointer(x)); return x.n.Add(d) }

func AddUint32(addr *uint32, delta uint32) uint32 {
	pt(unsafe.Pointer(addr))
	return atomic.AddUint32(addr, delta)
}
func LoadUint32(addr *uint32) uint32     { ptl(unsafe.Pointer(addr)); return atomic.LoadUint32(addr) }
func StoreUint32(addr *uint32, v uint32) { pt(unsafe.Pointer(addr)); atomic.StoreUint32(addr, v) }
func SwapUint32(addr *uint32, v uint32) uint32 {
	pt(unsafe.Pointer(addr))
	return atomic.SwapUint32(addr, v)
}
func CompareAndSwapUint32(addr *uint32, old, new uint32) bool {
	pt(unsafe.Pointer(addr))
	return atomic.CompareAndSwapUint32(addr, old, new)
}

type Uint32 struct{ n atomic.Uint32 }

func (x *Uint32) Load() uint32         { ptl(unsafe.Pointer(x)); return x.n.Load() }
func (x *Uint32) Store(v uint32)       { pt(unsafe.Pointer(x)); x.n.Store(v) }
func (x *Uint32) Swap(v uint32) uint32 { pt(unsafe.Pointer(x)); return x.n.Swap(v) }
func (x *Uint32) CompareAndSwap(old, new uint32) bool {
	pt(unsafe.Pointer(x))
	return x.n.CompareAndSwap(old, new)
}
func (x *Uint32) Add(d uint32) uint32 { pt(unsafe.Pointer(x)); return x.n.Add(d) }

func AddUint64(addr *uint64, delta uint64) uint64 {
	pt(unsafe.Pointer(addr))
	return atomic.AddUint64(addr, delta)
}
func LoadUint64(addr *uint64) uint64     { ptl(unsafe.Pointer(addr)); return atomic.LoadUint64(addr) }
func StoreUint64(addr *uint64, v uint64) { pt(unsafe.Pointer(addr)); atomic.StoreUint64(addr, v) }
func SwapUint64(addr *uint64, v uint64) uint64 {
	pt(unsafe.Pointer(addr))
	return atomic.SwapUint64(addr, v)
}
func CompareAndSwapUint64(addr *uint64, old, new uint64) bool {
	pt(unsafe.Pointer(addr))
	return atomic.CompareAndSwapUint64(addr, old, new)
}

type Uint64 struct{ n atomic.Uint64 }

func (x *Uint64) Load() uint64         { ptl(unsafe.Pointer(x)); return x.n.Load() }
func (x *Uint64) Store(v uint64)       { pt(unsafe.Pointer(x)); x.n.Store(v) }
func (x *Uint64) Swap(v uint64) uint64 { pt(unsafe.Pointer(x)); return x.n.Swap(v) }
func (x *Uint64) CompareAndSwap(old, new uint64) bool {
	pt(unsafe.Pointer(x))
	return x.n.CompareAndSwap(old, new)
}
func (x *Uint64) Add(d uint64) uint64 { pt(unsafe.Pointer(x)); return x.n.Add(d) }

func AddUintptr(addr *uintptr, delta uintptr) uintptr {
	pt(unsafe.Pointer(addr))
	return atomic.AddUintptr(addr, delta)
}
func LoadUintptr(addr *uintptr) uintptr     { ptl(unsafe.Pointer(addr)); return atomic.LoadUintptr(addr) }
func StoreUintptr(addr *uintptr, v uintptr) { pt(unsafe.Pointer(addr)); atomic.StoreUintptr(addr, v) }
func SwapUintptr(addr *uintptr, v uintptr) uintptr {
	pt(unsafe.Pointer(addr))
	return atomic.SwapUintptr(addr, v)
}
func CompareAndSwapUintptr(addr *uintptr, old, new uintptr) bool {
	pt(unsafe.Pointer(addr))
	return atomic.CompareAndSwapUintptr(addr, old, new)
}

type Uintptr struct{ n atomic.Uintptr }

func (x *Uintptr) Load() uintptr          { ptl(unsafe.Pointer(x)); return x.n.Load() }
func (x *Uintptr) Store(v uintptr)        { pt(unsafe.Pointer(x)); x.n.Store(v) }
func (x *Uintptr) Swap(v uintptr) uintptr { pt(unsafe.Pointer(x)); return x.n.Swap(v) }
func (x *Uintptr) CompareAndSwap(old, new uintptr) bool {
	pt(unsafe.Pointer(x))
	return x.n.CompareAndSwap(old, new)
}
func (x *Uintptr) Add(d uintptr) uintptr { pt(unsafe.Pointer(x)); return x.n.Add(d) }

func LoadPointer(addr *unsafe.Pointer) unsafe.Pointer {
	ptl(unsafe.Pointer(addr))
	return atomic.LoadPointer(addr)
}
func StorePointer(addr *unsafe.Pointer, v unsafe.Pointer) {
	pt(unsafe.Pointer(addr))
	atomic.StorePointer(addr, v)
}
func SwapPointer(addr *unsafe.Pointer, v unsafe.Pointer) unsafe.Pointer {
	pt(unsafe.Pointer(addr))
	return atomic.SwapPointer(addr, v)
}
func CompareAndSwapPointer(addr *unsafe.Pointer, old, new unsafe.Pointer) bool {
	pt(unsafe.Pointer(addr))
	return atomic.CompareAndSwapPointer(addr, old, new)
}

type Bool struct{ n atomic.Bool }

func (x *Bool) Load() bool       { ptl(unsafe.Pointer(x)); return x.n.Load() }
func (x *Bool) Store(v bool)     { pt(unsafe.Pointer(x)); x.n.Store(v) }
func (x *Bool) Swap(v bool) bool { pt(unsafe.Pointer(x)); return x.n.Swap(v) }
func (x *Bool) CompareAndSwap(old, new bool) bool {
	pt(unsafe.Pointer(x))
	return x.n.CompareAndSwap(old, new)
}

type Pointer[T any] struct{ n atomic.Pointer[T] }

func (x *Pointer[T]) Load() *T     { ptl(unsafe.Pointer(x)); return x.n.Load() }
func (x *Pointer[T]) Store(v *T)   { pt(unsafe.Pointer(x)); x.n.Store(v) }
func (x *Pointer[T]) Swap(v *T) *T { pt(unsafe.Pointer(x)); return x.n.Swap(v) }
func (x *Pointer[T]) CompareAndSwap(old, new *T) bool {
	pt(unsafe.Pointer(x))
	return x.n.CompareAndSwap(old, new)
}

type Value struct{ n atomic.Value }

func (x *Value) Load() any      { ptl(unsafe.Pointer(x)); return x.n.Load() }
func (x *Value) Store(v any)    { pt(unsafe.Pointer(x)); x.n.Store(v) }
func (x *Value) Swap(v any) any { pt(unsafe.Pointer(x)); return x.n.Swap(v) }
func (x *Value) CompareAndSwap(old, new any) bool {
	pt(unsafe.Pointer(x))
	return x.n.CompareAndSwap(old, new)
}
