//go:build race

package verifrt

import "runtime"

// RaceBuild reports whether the binary was built with -race.
const RaceBuild = true

func raceDisable() { runtime.RaceDisable() }
func raceEnable()  { runtime.RaceEnable() }
