// Package vsync mirrors package sync on top of the controlled scheduler: every
// blocking or ordering operation is a scheduling point, after which the native
// operation is performed (it can no longer block), so that the race detector
// sees exactly the happens-before edges of the program under test.
package vsync

import (
	"sync"
	"unsafe"

	rt "github.com/enbility/spine-go/internal/verifrt"
)

type Locker = sync.Locker
type Map = sync.Map
type Pool = sync.Pool

func OnceFunc(f func()) func()                                 { return sync.OnceFunc(f) }
func OnceValue[T any](f func() T) func() T                     { return sync.OnceValue(f) }
func OnceValues[T1, T2 any](f func() (T1, T2)) func() (T1, T2) { return sync.OnceValues(f) }

func init() {
	rt.RegisterUnlocker(1, func(p unsafe.Pointer) { m := (*Mutex)(p); m.n.TryLock(); m.n.Unlock() })
	rt.RegisterUnlocker(2, func(p unsafe.Pointer) { m := (*RWMutex)(p); m.n.TryLock(); m.n.Unlock() })
	rt.RegisterUnlocker(3, func(p unsafe.Pointer) { m := (*RWMutex)(p); m.n.RUnlock() })
}

type Mutex struct{ n sync.Mutex }

func (m *Mutex) Lock() {
	if !rt.Active() {
		m.n.Lock()
		return
	}
	if rt.Aborting() {
		return
	}
	rt.PointU(rt.OpLock, unsafe.Pointer(m), 1)
	m.n.Lock()
}

func (m *Mutex) TryLock() bool {
	if !rt.Active() {
		return m.n.TryLock()
	}
	if rt.Aborting() {
		return false
	}
	if rt.PointU(rt.OpTryLock, unsafe.Pointer(m), 1) == 1 {
		m.n.Lock()
		return true
	}
	return false
}

func (m *Mutex) Unlock() {
	if !rt.Active() {
		m.n.Unlock()
		return
	}
	if rt.Aborting() {
		m.n.TryLock()
		m.n.Unlock()
		return
	}
	m.n.Unlock()
	rt.Notify(rt.NUnlock, unsafe.Pointer(m), 0)
}

type RWMutex struct{ n sync.RWMutex }

func (m *RWMutex) Lock() {
	if !rt.Active() {
		m.n.Lock()
		return
	}
	if rt.Aborting() {
		return
	}
	rt.Point(rt.OpWAnnounce, unsafe.Pointer(m))
	rt.PointU(rt.OpWLock, unsafe.Pointer(m), 2)
	m.n.Lock()
}

func (m *RWMutex) TryLock() bool {
	if !rt.Active() {
		return m.n.TryLock()
	}
	if rt.Aborting() {
		return false
	}
	if rt.PointU(rt.OpTryLock, unsafe.Pointer(m), 2) == 1 {
		m.n.Lock()
		return true
	}
	return false
}

func (m *RWMutex) Unlock() {
	if !rt.Active() {
		m.n.Unlock()
		return
	}
	if rt.Aborting() {
		m.n.TryLock()
		m.n.Unlock()
		return
	}
	m.n.Unlock()
	rt.Notify(rt.NUnlock, unsafe.Pointer(m), 0)
}

func (m *RWMutex) RLock() {
	if !rt.Active() {
		m.n.RLock()
		return
	}
	if rt.Aborting() {
		return
	}
	rt.PointU(rt.OpRLock, unsafe.Pointer(m), 3)
	m.n.RLock()
}

func (m *RWMutex) TryRLock() bool {
	if !rt.Active() {
		return m.n.TryRLock()
	}
	if rt.Aborting() {
		return false
	}
	if rt.PointU(rt.OpTryRLock, unsafe.Pointer(m), 3) == 1 {
		m.n.RLock()
		return true
	}
	return false
}

func (m *RWMutex) RUnlock() {
	if !rt.Active() {
		m.n.RUnlock()
		return
	}
	if rt.Aborting() {
		// best effort: the teardown force-releases what the scheduler knows about
		return
	}
	m.n.RUnlock()
	rt.Notify(rt.NRUnlock, unsafe.Pointer(m), 0)
}

type rlocker RWMutex

func (r *rlocker) Lock()   { (*RWMutex)(r).RLock() }
func (r *rlocker) Unlock() { (*RWMutex)(r).RUnlock() }

func (m *RWMutex) RLocker() Locker { return (*rlocker)(m) }

type WaitGroup struct{ n sync.WaitGroup }

func (w *WaitGroup) Add(delta int) {
	if !rt.Active() || rt.Aborting() {
		if !rt.Aborting() {
			w.n.Add(delta)
		}
		return
	}
	w.n.Add(delta)
	rt.Notify(rt.NWGAdd, unsafe.Pointer(w), delta)
}

func (w *WaitGroup) Done() { w.Add(-1) }

func (w *WaitGroup) Wait() {
	if !rt.Active() {
		w.n.Wait()
		return
	}
	if rt.Aborting() {
		return
	}
	rt.Point(rt.OpWGWait, unsafe.Pointer(w))
	w.n.Wait()
}

type Once struct{ n sync.Once }

func (o *Once) Do(f func()) {
	if !rt.Active() {
		o.n.Do(f)
		return
	}
	if rt.Aborting() {
		return
	}
	if rt.Point(rt.OpOnce, unsafe.Pointer(o)) == 1 {
		defer rt.Notify(rt.NOnceDone, unsafe.Pointer(o), 0)
		o.n.Do(f)
		return
	}
	o.n.Do(func() {})
}

type Cond struct {
	L Locker
	_ int
}

func NewCond(l Locker) *Cond { return &Cond{L: l} }

func (c *Cond) Wait() {
	if !rt.Active() {
		panic("vsync.Cond outside the controlled scheduler is not supported")
	}
	if rt.Aborting() {
		return
	}
	c.L.Unlock()
	rt.Point(rt.OpCondWait, unsafe.Pointer(c))
	c.L.Lock()
}

func (c *Cond) Signal() {
	if rt.Active() && !rt.Aborting() {
		rt.Notify(rt.NCondSignal, unsafe.Pointer(c), 0)
	}
}

func (c *Cond) Broadcast() {
	if rt.Active() && !rt.Aborting() {
		rt.Notify(rt.NCondBroadcast, unsafe.Pointer(c), 0)
	}
}
