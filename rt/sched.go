// Package verifrt is the controlled runtime the instrumented spine-go code runs
// on while it is model checked: exactly one "thread" (goroutine started through
// Go, a timer callback, a ticker, or the driver) runs at a time and every
// synchronisation operation of the shim packages vsync / vatomic / vtime and of
// the channel wrappers is a scheduling point decided by the explorer.
//
// Race-detector hygiene (see DESIGN.md 2.3): the explorer/scheduler runs on the
// main goroutine, which has race *synchronisation* events disabled for its
// whole life; threads disable them only around their exchanges with the
// scheduler. The hand-offs are therefore invisible to TSan, and the only
// happens-before edges it sees are the ones the program under test creates
// through the native operations the shims perform after being granted.
package verifrt

import (
	"fmt"
	"os"
	"runtime"
	"sort"
	"strconv"
	"strings"
	"sync/atomic"
	"time"
	"unsafe"
)

type OpKind uint8

const (
	OpStart OpKind = iota
	OpLock
	OpRLock
	OpWAnnounce // RWMutex.Lock, step 1: announce (blocks new readers)
	OpWLock     // RWMutex.Lock, step 2: acquire
	OpTryLock
	OpTryRLock
	OpAtomic
	OpAtomicLoad
	OpSend
	OpSendDone
	OpRecv
	OpClose
	OpSelect
	OpWGWait
	OpOnce
	OpCondWait
	OpTimerWait
	OpTick
	OpIdle
	OpIO
	OpMark
	OpYield
	OpSleep
	// notifications (never choice points)
	NUnlock
	NRUnlock
	NWGAdd
	NOnceDone
	NCondSignal
	NCondBroadcast
	nTimerStop
	nTimerReset
	nSpawn
	nSpawnTimer
	nSpawnTicker
	nFinish
	nNow
	nLog
	nChanMake
	nChanLen
	nExplore
	nAdvance
	nBlocked
	nSetNow
	nTickerStop
	nTickerReset
)

var opNames = map[OpKind]string{OpStart: "start", OpLock: "lock", OpRLock: "rlock", OpWAnnounce: "wannounce", OpWLock: "wlock",
	OpTryLock: "trylock", OpTryRLock: "tryrlock", OpAtomic: "atomic", OpAtomicLoad: "aload", OpSend: "send", OpSendDone: "senddone",
	OpRecv: "recv", OpClose: "close", OpSelect: "select", OpWGWait: "wgwait", OpOnce: "once", OpCondWait: "condwait",
	OpTimerWait: "timer", OpTick: "tick", OpIdle: "idle", OpIO: "io", OpMark: "mark", OpYield: "yield", OpSleep: "sleep"}

func (k OpKind) String() string {
	if s, ok := opNames[k]; ok {
		return s
	}
	return fmt.Sprintf("op%d", uint8(k))
}

// SelCase is one case of a select statement as seen by the scheduler.
type SelCase struct {
	Ch   unsafe.Pointer
	Send bool
}

const maxSelCases = 6

type request struct {
	kind   OpKind
	obj    unsafe.Pointer
	n      int           // WGAdd delta, chan cap, ...
	d      time.Duration // timers
	ncases int
	cases  [maxSelCases]SelCase
	hasDef bool
	label  string
	fn     func() // nSpawn*: not called by the scheduler, only carried
	t2     *thread
	// scheduler side
	signalled bool // cond
}

type grant struct {
	abort   bool
	n       int // select: chosen case (-1 default); trylock/once: 1 = yes
	t       *thread
	now     time.Duration
	blocked []BlockedInfo
}

type h128 struct{ a, b uint64 }

func mix(h h128, v uint64) h128 {
	h.a = (h.a ^ v) * 0x9E3779B97F4A7C15
	h.a ^= h.a >> 29
	h.b = (h.b + v + 0x7F4A7C15) * 0xD6E8FEB86659FD93
	h.b ^= h.b >> 32
	return h
}
func mixh(h, g h128) h128 { return mix(mix(h, g.a), g.b) }
func strHash(s string) h128 {
	h := h128{0x243F6A8885A308D3, 0x13198A2E03707344}
	for i := 0; i < len(s); i++ {
		h = mix(h, uint64(s[i]))
	}
	return h
}

type thread struct {
	id       int
	path     string
	pathHash h128
	hash     h128
	wake     chan grant
	done     chan struct{} // closed natively (race events on) when the goroutine ends
	pending  *request      // non-nil while parked at a point
	finished bool
	started  bool
	spawns   int
	ops      int
	aborting bool // written and read by the thread itself only
	// timers
	isTimer      bool
	isTicker     bool
	deadline     time.Duration
	period       time.Duration
	cancelled    bool
	fired        bool
	ticks        int
	timerObj     unsafe.Pointer
	tickCh       unsafe.Pointer
	sendReleased bool
	panicVal     any
	panicStk     string
}

type object struct {
	key                 unsafe.Pointer
	id                  h128
	hasID               bool
	hash                h128
	racc                h128
	locked              bool
	owner               *thread
	readers             int
	wwait               int
	lockKind, rlockKind int
	// chan
	isChan   bool
	cap, cnt int
	closed   bool
	sendQ    []*thread
	// waitgroup
	wg int
	// once
	onceDone, onceRunning bool
}

// PanicInfo describes a panic that escaped a thread.
type PanicInfo struct {
	Thread string
	Value  string
	Frame  string // innermost frame inside spine-go (spine/model/util/api), if any
	Stack  string
}

// BlockedInfo describes a thread that was still parked when the execution ended.
type BlockedInfo struct {
	Thread string
	Op     string
	Hard   bool // parked on a lock / once: nobody can ever release it => deadlock
}

// ChoicePoint is one recorded scheduling decision with at least two alternatives.
type ChoicePoint struct {
	N      int     // number of alternatives
	Costs  []uint8 // deviation cost of every alternative
	Chosen int
	Key    h128 // Mazurkiewicz-trace key of the state before the decision
	Run    int  // id of the thread that was running (or -1)
	Names  []string
}

// Result of one execution.
type Result struct {
	Choices   []ChoicePoint
	Panics    []PanicInfo
	Deadlock  []BlockedInfo // hard-blocked threads at the end (driver finished or nobody enabled)
	Stuck     bool          // no thread enabled although the driver had not finished
	Horizon   bool
	Points    int
	Log       []string
	FinalKey  h128
	Diverged  string // replay prefix could not be followed
	PerThread map[string]int
	Windows   []string // with Config.Names: for every deviation taken, "preempted function >> function switched to"
}

type Config struct {
	Replay     []int
	Horizon    int  // max scheduling points after Explore(); 0 = default
	TimersFree bool // pending timers may fire at any point (cost 1 if something else is runnable)
	MaxTicks   int  // per ticker; 0 = default 4
	Names      bool // record thread/op names per choice (for replay files)
	// RandomSeed != 0: beyond the replay prefix pick alternatives pseudo-randomly
	// (only used by smoke tests, never by checks).
}

type sched struct {
	cur      *thread
	threads  []*thread
	objs     map[unsafe.Pointer]*object
	now      time.Duration
	cfg      Config
	explore  bool
	res      Result
	points   int
	chooseAt int
	clock    object
	marker   object
	aborting bool
}

var progress atomic.Uint64
var executing atomic.Bool

var theSched = &sched{}
var reqCh = make(chan request)

var abortSentinel = &struct{ s string }{"verifrt: abort"}

// Epoch is virtual time zero.
var Epoch = time.Date(2024, 3, 1, 12, 0, 0, 0, time.UTC)

//go:norace
func curThread() *thread { return theSched.cur }

//go:norace
func threadWake(t *thread) chan grant { return t.wake }

// call performs one exchange with the scheduler from a thread.
func call(r request) grant {
	t := curThread()
	if t == nil {
		panic("verifrt: shim operation outside Execute")
	}
	if isAborting(t) {
		// unwinding: never talk to the scheduler again
		return grant{abort: true}
	}
	if wantNames() && (r.kind < NUnlock || r.kind == nSpawnTimer || r.kind == nSpawnTicker) && r.label == "" {
		r.label = callerFunc()
		if r.label == "" {
			r.label = r.kind.String()
		}
	}
	raceDisable()
	reqCh <- r
	g := <-threadWake(t)
	raceEnable()
	if g.abort {
		setAborting(t)
		panic(abortSentinel)
	}
	return g
}

//go:norace
func wantNames() bool { return theSched.cfg.Names }

// callerFunc names the innermost function of the code under test on the stack.
func callerFunc() string {
	var pcs [24]uintptr
	n := runtime.Callers(3, pcs[:])
	fr := runtime.CallersFrames(pcs[:n])
	for {
		f, more := fr.Next()
		if strings.HasPrefix(f.Function, "github.com/enbility/spine-go/") && !strings.Contains(f.Function, "/internal/verifrt") {
			fn := strings.TrimPrefix(f.Function, "github.com/enbility/spine-go/")
			if strings.HasPrefix(fn, "internal/verifh/") {
				return "harness"
			}
			return fn
		}
		if !more {
			return ""
		}
	}
}

//go:norace
func isAborting(t *thread) bool { return t.aborting }

//go:norace
func setAborting(t *thread) { t.aborting = true }

// Aborting reports whether the calling thread is being unwound at the end of
// an execution (shims turn into inert native operations then).
func Aborting() bool {
	t := curThread()
	return t != nil && isAborting(t)
}

// Point is a scheduling point: the calling thread announces the operation it is
// about to perform and parks until the scheduler grants it.
func Point(kind OpKind, obj unsafe.Pointer) int {
	return call(request{kind: kind, obj: obj}).n
}

// PointU is Point for operations on lockable objects; unlock is remembered so
// that the object can be force-released natively when an execution is torn down.
func PointU(kind OpKind, obj unsafe.Pointer, lockKind int) int {
	return call(request{kind: kind, obj: obj, n: lockKind}).n
}

var unlockers [8]func(unsafe.Pointer)

// RegisterUnlocker installs the native force-release routine for a lock kind.
func RegisterUnlocker(kind int, f func(unsafe.Pointer)) { unlockers[kind] = f }

func Notify(kind OpKind, obj unsafe.Pointer, n int) int {
	return call(request{kind: kind, obj: obj, n: n}).n
}

// ---------------------------------------------------------------- threads

func (s *sched) newThread(parent *thread, kind string) *thread {
	t := &thread{id: len(s.threads), wake: make(chan grant, 1), done: make(chan struct{})}
	if parent == nil {
		t.path = "0"
	} else {
		t.path = parent.path + "." + kind + strconv.Itoa(parent.spawns) // (no fmt on the scheduler goroutine: its sync.Pool would look racy)
		parent.spawns++
	}
	t.pathHash = strHash(t.path)
	if parent != nil {
		parent.hash = mix(parent.hash, 0x5350+uint64(parent.spawns))
		t.hash = mixh(t.pathHash, parent.hash)
	} else {
		t.hash = t.pathHash
	}
	t.pending = &request{kind: OpStart}
	s.threads = append(s.threads, t)
	return t
}

// launch starts the goroutine of t; must be called on the goroutine that is the
// logical parent so that TSan sees the creator -> child edge.
func launch(t *thread, f func(grant)) {
	go func() {
		raceDisable()
		g := <-threadWake(t)
		raceEnable()
		if g.abort {
			setAborting(t)
			finish(t, nil, "")
			return
		}
		defer func() {
			r := recover()
			if r == abortSentinel || isAborting(t) {
				finish(t, nil, "")
				return
			}
			stk := ""
			if r != nil {
				buf := make([]byte, 16<<10)
				buf = buf[:runtime.Stack(buf, false)]
				stk = string(buf)
			}
			finish(t, r, stk)
		}()
		f(g)
	}()
}

//go:norace
func finish(t *thread, pv any, stk string) {
	close(t.done) // native, race events enabled: end-of-thread -> joiner edge
	raceDisable()
	r := request{kind: nFinish, t2: t}
	if pv != nil {
		r.label = fmt.Sprint(pv)
		r.n = 1
		r.fn = func() {} // marker
		t.setPanic(pv, stk)
	}
	reqCh <- r
	raceEnable()
}

//go:norace
func (t *thread) setPanic(pv any, stk string) { t.panicVal = pv; t.panicStk = stk }

//go:norace
func (t *thread) getPanic() (any, string) { return t.panicVal, t.panicStk }

// Go starts f as a new controlled thread (replacement of the go statement).
func Go(f func()) {
	if Aborting() {
		return
	}
	g := call(request{kind: nSpawn})
	launch(g.t, func(grant) { f() })
}

// GoNamed is Go for harness threads; the name only shows up in replay files.
func GoNamed(name string, f func()) { Go(f) }

// JoinFinished makes every thread that has finished happen-before the caller,
// natively and visibly to the race detector (use before reading observations).
func JoinFinished() {
	call(request{kind: nBlocked, n: 1})
	n := joinLen()
	for i := 0; i < n; i++ {
		<-joinChan(i)
	}
}

var joinList []*thread

//go:norace
func joinLen() int { return len(joinList) }

//go:norace
func joinChan(i int) chan struct{} { return joinList[i].done }

// ---------------------------------------------------------------- driver API

// BeginExplore marks the end of set-up: from here on decisions are recorded and branched.
func BeginExplore() { call(request{kind: nExplore}) }

// WaitIdle parks the driver until no other thread can run (timers that are not
// yet due do not count). It returns the threads that are still parked.
func WaitIdle() []BlockedInfo {
	call(request{kind: OpIdle})
	return Blocked()
}

// LogSoFar returns a copy of the execution log (marks and log lines) up to now.
func LogSoFar() []string {
	call(request{kind: nBlocked, n: 3})
	return copyLog()
}

var logSnap []string

//go:norace
func copyLog() []string {
	out := make([]string, 0, len(logSnap))
	for i := 0; i < len(logSnap); i++ {
		out = append(out, strings.Clone(logSnap[i]))
	}
	return out
}

// PendingTimers returns the number of armed one-shot timers (AfterFunc / NewTimer)
// that have neither fired nor been stopped.
func PendingTimers() int { return call(request{kind: nBlocked, n: 2}).n }

// Blocked lists the threads that are parked right now.
func Blocked() []BlockedInfo {
	g := call(request{kind: nBlocked})
	return copyBlocked(g.blocked)
}

//go:norace
func copyBlocked(src []BlockedInfo) []BlockedInfo {
	var out []BlockedInfo
	for i := 0; i < len(src); i++ {
		b := src[i]
		out = append(out, BlockedInfo{Thread: strings.Clone(b.Thread), Op: b.Op, Hard: b.Hard})
	}
	return out
}

// Advance lets virtual time run forward by d, firing every timer that becomes
// due, each to quiescence, in deadline order.
func Advance(d time.Duration) {
	target := NowD() + d
	for {
		g := call(request{kind: nAdvance, d: target})
		if g.n == 0 {
			return
		}
		call(request{kind: OpIdle})
	}
}

// NowD returns the virtual clock as an offset from Epoch.
func NowD() time.Duration { return call(request{kind: nNow}).now }

// Now returns the virtual time.
func Now() time.Time { return Epoch.Add(NowD()) }

// Log appends a line to the execution log (ordered: part of the trace).
func Log(s string) { call(request{kind: nLog, label: s}) }

// Mark is a scheduling point that also records a label in the execution log;
// call/return markers used by history oracles.
func Mark(s string) { call(request{kind: OpMark, label: s}) }

// Yield is a pure scheduling point.
func Yield() { call(request{kind: OpYield}) }

// IO is a scheduling point for an externally observable output on obj (a connection).
func IO(obj unsafe.Pointer) { call(request{kind: OpIO, obj: obj}) }

// Active reports whether the caller runs under Execute.
func Active() bool { return curThread() != nil }

// ---------------------------------------------------------------- execution

var watchdogOnce bool

func startWatchdog() {
	if watchdogOnce {
		return
	}
	watchdogOnce = true
	limit := 120
	go func() {
		last := progress.Load()
		idle := 0
		for {
			time.Sleep(5 * time.Second)
			p := progress.Load()
			if p == last && executing.Load() {
				idle += 5
				if idle >= limit {
					buf := make([]byte, 1<<20)
					buf = buf[:runtime.Stack(buf, true)]
					fmt.Fprintf(os.Stderr, "VERIFRT-WEDGE: no scheduling point for %ds\n%s\n", idle, buf)
					os.Exit(97)
				}
			} else {
				idle = 0
			}
			last = p
		}
	}()
}

// Execute runs body as thread 0 under the controlled scheduler, following
// cfg.Replay and then the default policy, and returns what happened. It must be
// called on the main goroutine (see InitMain).
func Execute(cfg Config, body func()) *Result {
	s := theSched
	startWatchdog()
	*s = sched{}
	s.cfg = cfg
	if s.cfg.Horizon == 0 {
		s.cfg.Horizon = 20000
	}
	if s.cfg.MaxTicks == 0 {
		s.cfg.MaxTicks = 4
	}
	s.objs = make(map[unsafe.Pointer]*object)
	executing.Store(true)
	s.clock.id, s.clock.hasID = strHash("clock"), true
	s.marker.id, s.marker.hasID = strHash("marker"), true
	s.res.PerThread = map[string]int{}
	t0 := s.newThread(nil, "")
	raceEnable()
	launch(t0, func(grant) { body() })
	raceDisable()
	s.loop(t0)
	// join the driver natively so that everything it wrote is visible to the explorer
	raceEnable()
	<-t0.done
	raceDisable()
	s.teardown()
	s.cur = nil
	executing.Store(false)
	r := s.res
	return &r
}

// InitMain must be called once at the start of main on the main goroutine.
func InitMain() { raceDisable() }

// IsAbort reports whether a recovered value is the runtime's unwinding signal;
// harness code that recovers must re-panic it.
func IsAbort(r any) bool { return r == abortSentinel }

func (s *sched) obj(p unsafe.Pointer) *object {
	if p == nil {
		return &s.marker
	}
	o := s.objs[p]
	if o == nil {
		o = &object{key: p}
		s.objs[p] = o
	}
	return o
}

func (s *sched) minDeadline() (time.Duration, bool) {
	var m time.Duration
	ok := false
	for _, t := range s.threads {
		if !t.finished && !t.cancelled && t.pending != nil && s.isTimeWait(t) {
			if t.isTicker && t.ticks >= s.cfg.MaxTicks {
				continue
			}
			if !ok || t.deadline < m {
				m, ok = t.deadline, true
			}
		}
	}
	return m, ok
}

func (s *sched) chanReady(c SelCase) bool {
	if c.Ch == nil {
		return false // nil channel: never ready
	}
	o := s.obj(c.Ch)
	if !o.isChan {
		panic("verifrt: operation on a channel that was not created through MakeChan")
	}
	if c.Send {
		return o.closed || o.cnt < o.cap || (o.cap == 0 && o.cnt == 0 && s.hasReceiver(o))
	}
	return o.cnt > 0 || o.closed
}

func (s *sched) hasReceiver(o *object) bool {
	for _, t := range s.threads {
		if t.finished || t.pending == nil {
			continue
		}
		r := t.pending
		if r.kind == OpRecv && r.obj == o.key {
			return true
		}
		if r.kind == OpSelect {
			for i := 0; i < r.ncases; i++ {
				if !r.cases[i].Send && r.cases[i].Ch == o.key {
					return true
				}
			}
		}
	}
	return false
}

// timeOnly: the thread waits for virtual time only.
func (s *sched) isTimeWait(t *thread) bool {
	k := t.pending.kind
	return k == OpTimerWait || k == OpTick || k == OpSleep
}

func (s *sched) enabled(t *thread, minD time.Duration, hasMin bool) bool {
	if t.finished || t.pending == nil || t.cancelled {
		return false
	}
	r := t.pending
	switch r.kind {
	case OpLock:
		o := s.obj(r.obj)
		return !o.locked && o.readers == 0
	case OpRLock:
		o := s.obj(r.obj)
		return !o.locked && o.wwait == 0
	case OpWLock:
		o := s.obj(r.obj)
		return !o.locked && o.readers == 0
	case OpSend:
		return s.chanReady(SelCase{Ch: r.obj, Send: true})
	case OpSendDone:
		return t.sendReleased
	case OpRecv:
		return s.chanReady(SelCase{Ch: r.obj})
	case OpSelect:
		if r.hasDef {
			return true
		}
		for i := 0; i < r.ncases; i++ {
			if s.chanReady(r.cases[i]) {
				return true
			}
		}
		return false
	case OpWGWait:
		return s.obj(r.obj).wg == 0
	case OpOnce:
		return !s.obj(r.obj).onceRunning
	case OpCondWait:
		return r.signalled
	case OpTimerWait, OpSleep:
		if t.deadline <= s.now {
			return true
		}
		return s.cfg.TimersFree && s.explore && hasMin && t.deadline == minD
	case OpTick:
		if t.ticks >= s.cfg.MaxTicks {
			return false
		}
		if t.deadline <= s.now {
			return true
		}
		return s.cfg.TimersFree && s.explore && hasMin && t.deadline == minD
	case OpIdle:
		return false // handled by the caller
	}
	return true
}

func (s *sched) stateKey() h128 {
	idx := make([]int, 0, len(s.threads))
	for i := range s.threads {
		idx = append(idx, i)
	}
	sort.Slice(idx, func(a, b int) bool { return s.threads[idx[a]].path < s.threads[idx[b]].path })
	k := h128{1, 2}
	for _, i := range idx {
		t := s.threads[i]
		k = mixh(k, t.pathHash)
		k = mixh(k, t.hash)
		if t.finished {
			k = mix(k, 7)
		}
		if t.cancelled {
			k = mix(k, 11)
		}
	}
	return k
}

// decide picks the next thread to run. running is the thread that just parked
// (nil if it finished).
func (s *sched) decide(running *thread) *thread {
	minD, hasMin := s.minDeadline()
	var en []*thread
	anyNonTimer := false
	for _, t := range s.threads {
		if t.pending != nil && t.pending.kind == OpIdle {
			continue
		}
		if s.enabled(t, minD, hasMin) {
			en = append(en, t)
			if !(s.isTimeWait(t) && t.deadline > s.now) {
				anyNonTimer = true
			}
		}
	}
	// idle waiters run only when nothing but not-yet-due timers could run
	if !anyNonTimer {
		for _, t := range s.threads {
			if !t.finished && t.pending != nil && t.pending.kind == OpIdle {
				en = append([]*thread{t}, en...)
				break
			}
		}
	}
	if len(en) == 0 {
		return nil
	}
	// canonical order: running thread first if enabled, then by id; early timers last
	sort.SliceStable(en, func(a, b int) bool {
		ra, rb := s.rank(en[a], running), s.rank(en[b], running)
		if ra != rb {
			return ra < rb
		}
		return en[a].id < en[b].id
	})
	if len(en) == 1 || !s.explore {
		return en[0]
	}
	runEnabled := running != nil && en[0] == running
	idleFirst := en[0].pending.kind == OpIdle
	cp := ChoicePoint{N: len(en), Costs: make([]uint8, len(en)), Key: s.stateKey(), Run: -1}
	if running != nil {
		cp.Run = running.id
	}
	for i, t := range en {
		c := uint8(0)
		early := s.isTimeWait(t) && t.deadline > s.now
		if i > 0 && runEnabled {
			c = 1
		}
		if early && (anyNonTimer || idleFirst) {
			c = 1
		}
		cp.Costs[i] = c
		if s.cfg.Names {
			cp.Names = append(cp.Names, fmt.Sprintf("%s:%s@%s", t.path, t.pending.kind, t.pending.label))
		}
	}
	ch := s.nextChoice(len(en))
	cp.Chosen = ch
	if s.cfg.Names && cp.Costs[ch] > 0 {
		from := "-"
		if running != nil && running.pending != nil {
			from = running.pending.label
		}
		s.res.Windows = append(s.res.Windows, from+" >> "+en[ch].pending.label)
	}
	s.res.Choices = append(s.res.Choices, cp)
	return en[ch]
}

func (s *sched) rank(t, running *thread) int {
	if t == running {
		return 0
	}
	if s.isTimeWait(t) && t.deadline > s.now {
		return 2
	}
	return 1
}

func (s *sched) nextChoice(n int) int {
	i := len(s.res.Choices)
	if i < len(s.cfg.Replay) {
		c := s.cfg.Replay[i]
		if c < 0 || c >= n {
			if s.res.Diverged == "" {
				s.res.Diverged = fmt.Sprintf("choice %d: replay wants alternative %d of %d", i, c, n)
			}
			return 0
		}
		return c
	}
	return 0
}

// fold records operation (kind on o by t) in the trace hashes.
func (s *sched) fold(t *thread, kind OpKind, o *object, readLike bool) {
	if !o.hasID {
		o.id = mix(t.pathHash, uint64(t.ops)+0x1000)
		o.hasID = true
	}
	t.ops++
	t.hash = mix(mixh(mixh(t.hash, o.id), o.hash), uint64(kind))
	if readLike {
		g := mix(t.hash, 0x52)
		o.racc.a += g.a
		o.racc.b += g.b
		return
	}
	t.hash = mixh(t.hash, o.racc)
	o.hash = mixh(mixh(o.hash, o.racc), t.hash)
	o.racc = h128{}
}

func (s *sched) wake(t *thread, g grant) {
	s.cur = t
	t.pending = nil
	t.wake <- g
}

// apply performs the scheduler-side effect of the granted operation of t and
// returns the grant to deliver.
func (s *sched) apply(t *thread) grant {
	r := t.pending
	g := grant{}
	switch r.kind {
	case OpStart, OpYield, OpIdle:
		t.started = true
		t.ops++
		t.hash = mix(t.hash, 0x900+uint64(r.kind))
	case OpLock, OpWLock:
		o := s.obj(r.obj)
		if r.kind == OpWLock {
			o.wwait--
		}
		o.locked, o.owner = true, t
		o.lockKind = r.n
		s.fold(t, r.kind, o, false)
	case OpWAnnounce:
		o := s.obj(r.obj)
		o.wwait++
		s.fold(t, r.kind, o, false)
	case OpRLock:
		o := s.obj(r.obj)
		o.readers++
		o.rlockKind = r.n
		s.fold(t, r.kind, o, true)
	case OpTryLock:
		o := s.obj(r.obj)
		if !o.locked && o.readers == 0 {
			o.locked, o.owner = true, t
			o.lockKind = r.n
			g.n = 1
			s.fold(t, r.kind, o, false)
		} else {
			s.fold(t, r.kind, o, true)
		}
	case OpTryRLock:
		o := s.obj(r.obj)
		if !o.locked && o.wwait == 0 {
			o.readers++
			o.rlockKind = r.n
			g.n = 1
		}
		s.fold(t, r.kind, o, true)
	case OpAtomic, OpIO:
		s.fold(t, r.kind, s.obj(r.obj), false)
	case OpMark:
		s.fold(t, r.kind, &s.marker, false)
		s.res.Log = append(s.res.Log, r.label)
	case OpAtomicLoad:
		s.fold(t, r.kind, s.obj(r.obj), true)
	case OpSend:
		o := s.obj(r.obj)
		g.n = o.cap
		if !o.closed {
			o.cnt++
			if o.cap == 0 {
				o.sendQ = append(o.sendQ, t)
			}
		}
		s.fold(t, r.kind, o, false)
	case OpSendDone:
		t.sendReleased = false
		s.fold(t, r.kind, s.obj(r.obj), false)
	case OpRecv:
		o := s.obj(r.obj)
		s.recvFrom(o)
		s.fold(t, r.kind, o, false)
	case OpClose:
		o := s.obj(r.obj)
		o.closed = true
		s.fold(t, r.kind, o, false)
	case OpSelect:
		var ready []int
		for i := 0; i < r.ncases; i++ {
			if s.chanReady(r.cases[i]) {
				ready = append(ready, i)
			}
		}
		if len(ready) == 0 {
			g.n = -1
			for i := 0; i < r.ncases; i++ {
				s.fold(t, OpSelect, s.obj(r.cases[i].Ch), true)
			}
			break
		}
		pick := 0
		if len(ready) > 1 && s.explore {
			cp := ChoicePoint{N: len(ready), Costs: make([]uint8, len(ready)), Key: mix(s.stateKey(), 0x5e1), Run: t.id}
			if s.cfg.Names {
				for _, c := range ready {
					cp.Names = append(cp.Names, fmt.Sprintf("%s:selectcase%d", t.path, c))
				}
			}
			pick = s.nextChoice(len(ready))
			cp.Chosen = pick
			s.res.Choices = append(s.res.Choices, cp)
		}
		c := r.cases[ready[pick]]
		o := s.obj(c.Ch)
		if c.Send {
			if !o.closed {
				o.cnt++
				if o.cap == 0 {
					o.sendQ = append(o.sendQ, nil)
				}
			}
		} else {
			s.recvFrom(o)
		}
		s.fold(t, OpSelect, o, false)
		g.n = ready[pick]
	case OpWGWait:
		s.fold(t, r.kind, s.obj(r.obj), false)
	case OpOnce:
		o := s.obj(r.obj)
		if !o.onceDone {
			o.onceRunning = true
			g.n = 1
		}
		s.fold(t, r.kind, o, false)
	case OpCondWait:
		s.fold(t, r.kind, s.obj(r.obj), false)
	case OpTimerWait, OpSleep:
		if t.deadline > s.now {
			s.now = t.deadline
		}
		t.fired = true
		s.fold(t, r.kind, &s.clock, false)
		if t.timerObj != nil {
			s.fold(t, r.kind, s.obj(t.timerObj), false)
		}
	case OpTick:
		if t.deadline > s.now {
			s.now = t.deadline
		}
		t.ticks++
		t.deadline += t.period
		s.fold(t, r.kind, &s.clock, false)
		o := s.obj(t.tickCh)
		if o.cnt < o.cap {
			o.cnt++
			g.n = 1
		}
		s.fold(t, r.kind, o, false)
	}
	g.now = s.now
	return g
}

func (s *sched) recvFrom(o *object) {
	if o.cnt > 0 {
		o.cnt--
		if o.cap == 0 && len(o.sendQ) > 0 {
			w := o.sendQ[0]
			o.sendQ = o.sendQ[1:]
			if w != nil {
				// the sender may not have reached its senddone point yet
				w.sendReleased = true
			}
		}
	}
}

// loop is the scheduler proper.
func (s *sched) loop(t0 *thread) {
	s.wake(t0, s.apply(t0))
	for {
		r := <-reqCh
		progress.Add(1)
		t := s.cur
		if r.kind == nFinish {
			t = r.t2
			t.finished = true
			t.pending = nil
			if r.n == 1 {
				pv, stk := t.getPanic()
				s.res.Panics = append(s.res.Panics, PanicInfo{Thread: t.path, Value: fmt.Sprint(pv), Stack: stk, Frame: innermostFrame(stk)})
			}
			if t == t0 {
				return
			}
			if !s.next(nil) {
				return
			}
			continue
		}
		if r.kind >= NUnlock {
			s.wake(t, s.notify(t, &r))
			continue
		}
		// a point
		rr := r
		t.pending = &rr
		if r.kind == OpSleep {
			t.deadline = s.now + r.d
		}
		if s.explore {
			s.points++
			s.res.PerThread[t.path]++
			if s.points > s.cfg.Horizon {
				s.res.Horizon = true
				s.res.Points = s.points
				s.abortDriver(t0)
				return
			}
		}
		if !s.next(t) {
			return
		}
	}
}

// next schedules the next thread; false if the execution cannot continue.
func (s *sched) next(running *thread) bool {
	nt := s.decide(running)
	if nt == nil {
		// nobody can run although the driver has not finished
		s.res.Stuck = true
		s.abortDriver(s.threads[0])
		return false
	}
	s.wake(nt, s.apply(nt))
	return true
}

func (s *sched) abortDriver(t0 *thread) {
	s.res.Deadlock = s.blockedList(true)
	if t0.finished {
		return
	}
	if t0.pending == nil {
		// the driver is the running thread: cannot happen (it called in)
		return
	}
	s.aborting = true
	s.cur = t0
	t0.pending = nil
	t0.wake <- grant{abort: true}
	for {
		r := <-reqCh
		if r.kind == nFinish && r.t2 == t0 {
			t0.finished = true
			return
		}
		if r.kind == nFinish {
			r.t2.finished = true
		}
	}
}

func (s *sched) blockedList(hardOnly bool) []BlockedInfo {
	var out []BlockedInfo
	for _, t := range s.threads {
		if t.finished || t.pending == nil || t.cancelled || t.id == 0 {
			continue
		}
		k := t.pending.kind
		hard := k == OpLock || k == OpRLock || k == OpWLock || k == OpOnce || k == OpWGWait || k == OpCondWait
		if hardOnly && !hard {
			continue
		}
		out = append(out, BlockedInfo{Thread: t.path, Op: k.String(), Hard: hard})
	}
	return out
}

func (s *sched) notify(t *thread, r *request) grant {
	g := grant{}
	switch r.kind {
	case NUnlock:
		o := s.obj(r.obj)
		o.locked, o.owner = false, nil
		if !o.hasID {
			o.id, o.hasID = mix(t.pathHash, uint64(t.ops)+0x1000), true
		}
		t.ops++
		o.hash = mixh(o.hash, t.hash)
	case NRUnlock:
		o := s.obj(r.obj)
		o.readers--
		t.ops++
		gg := mix(t.hash, 0x55)
		o.racc.a += gg.a
		o.racc.b += gg.b
	case NWGAdd:
		o := s.obj(r.obj)
		o.wg += r.n
		s.fold(t, OpAtomic, o, false)
	case NOnceDone:
		o := s.obj(r.obj)
		o.onceRunning, o.onceDone = false, true
		o.hash = mixh(o.hash, t.hash)
	case NCondSignal, NCondBroadcast:
		o := s.obj(r.obj)
		s.fold(t, OpAtomic, o, false)
		for _, u := range s.threads {
			if u.pending != nil && u.pending.kind == OpCondWait && u.pending.obj == r.obj && !u.pending.signalled {
				u.pending.signalled = true
				if r.kind == NCondSignal {
					break
				}
			}
		}
	case nSpawn:
		g.t = s.newThread(t, "g")
	case nSpawnTimer:
		nt := s.newThread(t, "t")
		nt.isTimer = true
		nt.deadline = s.now + r.d
		nt.timerObj = r.obj
		nt.pending = &request{kind: OpTimerWait, label: "timer armed in " + r.label}
		g.t = nt
	case nSpawnTicker:
		nt := s.newThread(t, "k")
		nt.isTicker = true
		nt.period = r.d
		nt.deadline = s.now + r.d
		nt.tickCh = r.obj
		nt.pending = &request{kind: OpTick, label: "ticker started in " + r.label}
		g.t = nt
	case nTimerStop:
		// r.t2 is the timer thread
		tt := r.t2
		s.fold(t, OpAtomic, s.obj(tt.timerObj), false)
		if !tt.fired && !tt.cancelled && !tt.finished {
			tt.cancelled = true
			g.n = 1
		}
	case nTimerReset:
		tt := r.t2
		s.fold(t, OpAtomic, s.obj(tt.timerObj), false)
		if !tt.fired && !tt.cancelled && !tt.finished {
			tt.deadline = s.now + r.d
			g.n = 1
		}
	case nTickerStop:
		r.t2.cancelled = true
	case nTickerReset:
		r.t2.period = r.d
		r.t2.deadline = s.now + r.d
	case nNow:
		s.fold(t, OpAtomicLoad, &s.clock, true)
	case nSetNow:
		s.now = r.d
	case nLog:
		s.res.Log = append(s.res.Log, r.label)
	case nChanMake:
		o := s.obj(r.obj)
		o.isChan, o.cap = true, r.n
	case nChanLen:
		o := s.obj(r.obj)
		g.n = o.cnt
		if r.n == 1 {
			g.n = o.cap
		}
	case nExplore:
		s.explore = true
	case nAdvance:
		// r.d is the absolute target
		var best *thread
		for _, tt := range s.threads {
			if !tt.finished && !tt.cancelled && tt.pending != nil && s.isTimeWait(tt) {
				if tt.isTicker && tt.ticks >= s.cfg.MaxTicks {
					continue
				}
				if tt.deadline <= r.d && (best == nil || tt.deadline < best.deadline) {
					best = tt
				}
			}
		}
		if best != nil {
			if best.deadline > s.now {
				s.now = best.deadline
			}
			g.n = 1
		} else if r.d > s.now {
			s.now = r.d
		}
	case nBlocked:
		if r.n == 3 {
			logSnap = s.res.Log
			break
		}
		if r.n == 2 {
			for _, tt := range s.threads {
				if !tt.finished && !tt.cancelled && tt.pending != nil && tt.isTimer && !tt.fired {
					g.n++
				}
			}
			break
		}
		if r.n == 1 {
			var l []*thread
			for _, tt := range s.threads {
				if tt.finished && tt.id != 0 {
					l = append(l, tt)
				}
			}
			joinList = l
			break
		}
		g.blocked = s.blockedList(false)
	}
	g.now = s.now
	return g
}

// teardown unwinds every thread that is still parked and force-releases
// whatever is still locked, so that nothing leaks into the next execution.
func (s *sched) teardown() {
	s.res.Points = s.points
	s.res.FinalKey = s.stateKey()
	if s.res.Deadlock == nil {
		s.res.Deadlock = s.blockedList(true)
	}
	s.aborting = true
	for _, t := range s.threads {
		if t.finished {
			continue
		}
		s.cur = t
		t.pending = nil
		t.wake <- grant{abort: true}
		for {
			r := <-reqCh
			if r.kind == nFinish {
				r.t2.finished = true
				if r.t2 == t {
					break
				}
			}
		}
	}
	for _, o := range s.objs {
		if o.locked && unlockers[o.lockKind] != nil {
			unlockers[o.lockKind](o.key)
		}
		for i := 0; i < o.readers; i++ {
			if unlockers[o.rlockKind] != nil {
				unlockers[o.rlockKind](o.key)
			}
		}
	}
}

func innermostFrame(stk string) string {
	lines := strings.Split(stk, "\n")
	for _, l := range lines {
		if strings.HasPrefix(l, "github.com/enbility/spine-go/") && !strings.Contains(l, "/internal/") {
			if i := strings.LastIndex(l, "("); i > 0 {
				l = l[:i]
			}
			return strings.TrimPrefix(l, "github.com/enbility/spine-go/")
		}
	}
	return ""
}
