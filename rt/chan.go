package verifrt

import (
	"fmt"
	"reflect"
	"sort"
	"time"
	"unsafe"
)

// Channel wrappers. The native channel is kept as the carrier (so the race
// detector sees the real channel happens-before edges); its logical state
// (capacity, fill level, closed) is mirrored in the scheduler so that
// enabledness is known without consuming. A logically unbuffered channel is
// carried by a native channel of capacity 1 and the sender parks at a second
// point until its value has been taken.

func chanKey[T any](ch chan T) unsafe.Pointer    { return *(*unsafe.Pointer)(unsafe.Pointer(&ch)) }
func chanKeyR[T any](ch <-chan T) unsafe.Pointer { return *(*unsafe.Pointer)(unsafe.Pointer(&ch)) }
func chanKeyS[T any](ch chan<- T) unsafe.Pointer { return *(*unsafe.Pointer)(unsafe.Pointer(&ch)) }
func controlled() bool                           { return Active() && !Aborting() }

func MakeChan[T any](n int) chan T {
	if !controlled() {
		return make(chan T, n)
	}
	c := n
	if c < 1 {
		c = 1
	}
	ch := make(chan T, c)
	call(request{kind: nChanMake, obj: chanKey(ch), n: n})
	return ch
}

func Send[T any](ch chan<- T, v T) {
	if !controlled() {
		if Aborting() {
			return
		}
		ch <- v
		return
	}
	k := chanKeyS(ch)
	g := call(request{kind: OpSend, obj: k})
	ch <- v
	if g.n == 0 {
		call(request{kind: OpSendDone, obj: k})
	}
}

// SendDone completes an unbuffered send performed natively after Select.
func SendDone[T any](ch chan<- T) {
	if !controlled() {
		return
	}
	k := chanKeyS(ch)
	if call(request{kind: nChanLen, obj: k, n: 1}).n == 0 {
		call(request{kind: OpSendDone, obj: k})
	}
}

// TrySend is a non-blocking send (select with default).
func TrySend[T any](ch chan<- T, v T) bool {
	if !controlled() {
		if Aborting() {
			return false
		}
		select {
		case ch <- v:
			return true
		default:
			return false
		}
	}
	if Select(true, SendCase(ch)) == 0 {
		ch <- v
		SendDone(ch)
		return true
	}
	return false
}

func Recv[T any](ch <-chan T) T {
	v, _ := Recv2(ch)
	return v
}

func Recv2[T any](ch <-chan T) (T, bool) {
	if !controlled() {
		if Aborting() {
			var z T
			return z, false
		}
		v, ok := <-ch
		return v, ok
	}
	call(request{kind: OpRecv, obj: chanKeyR(ch)})
	v, ok := <-ch
	return v, ok
}

func Close[T any](ch chan<- T) {
	if !controlled() {
		if Aborting() {
			return
		}
		close(ch)
		return
	}
	call(request{kind: OpClose, obj: chanKeyS(ch)})
	close(ch)
}

func RecvCase[T any](ch <-chan T) SelCase { return SelCase{Ch: chanKeyR(ch)} }
func SendCase[T any](ch chan<- T) SelCase { return SelCase{Ch: chanKeyS(ch), Send: true} }

// Select decides which case of a select statement is taken (-1: default). The
// rewritten case body then performs the native operation, which cannot block
// because no scheduling point lies in between. Outside a controlled execution
// Select panics: instrumented select statements only run under the scheduler.
func Select(hasDefault bool, cases ...SelCase) int {
	if Aborting() {
		panic(abortSentinel)
	}
	if !Active() {
		panic("verifrt.Select outside a controlled execution")
	}
	if len(cases) > maxSelCases {
		panic("verifrt.Select: too many cases")
	}
	r := request{kind: OpSelect, hasDef: hasDefault, ncases: len(cases)}
	copy(r.cases[:], cases)
	return call(r).n
}

// ---------------------------------------------------------------- timers

type TimerHandle struct{ t *thread }
type TickerHandle struct{ t *thread }

func SpawnTimer(d time.Duration, f func()) *TimerHandle {
	h := &TimerHandle{}
	if Aborting() {
		return h
	}
	g := call(request{kind: nSpawnTimer, d: d, obj: unsafe.Pointer(h)})
	h.t = g.t
	launch(g.t, func(grant) { f() })
	return h
}

func (h *TimerHandle) Stop() bool {
	if h.t == nil || Aborting() {
		return false
	}
	return call(request{kind: nTimerStop, t2: h.t}).n == 1
}

func SpawnTicker(d time.Duration, c chan time.Time) *TickerHandle {
	h := &TickerHandle{}
	if Aborting() {
		return h
	}
	g := call(request{kind: nSpawnTicker, d: d, obj: chanKey(c)})
	h.t = g.t
	call(request{kind: nLog, label: "ticker " + d.String()})
	launch(g.t, func(first grant) {
		g := first
		for {
			if g.n == 1 {
				c <- Epoch.Add(g.now)
			}
			g = call(request{kind: OpTick})
		}
	})
	return h
}

func (h *TickerHandle) Stop() {
	if h.t != nil && !Aborting() {
		call(request{kind: nTickerStop, t2: h.t})
	}
}

func (h *TickerHandle) Reset(d time.Duration) {
	if h.t != nil && !Aborting() {
		call(request{kind: nTickerReset, t2: h.t, d: d})
	}
}

// Sleep parks the caller until the virtual clock has advanced by d.
func Sleep(d time.Duration) {
	if Aborting() {
		return
	}
	call(request{kind: OpSleep, d: d})
}

// MapEntry / MapEntries: deterministic iteration over a map (see the instrumenter: every range over a
// map in the library is rewritten to range over MapEntries). Keys are ordered by kind: integers, unsigned
// integers, floats and strings by value, everything else by its printed form.
type MapEntry[K comparable, V any] struct {
	K K
	V V
}

func MapEntries[M ~map[K]V, K comparable, V any](m M) []MapEntry[K, V] {
	out := make([]MapEntry[K, V], 0, len(m))
	for k, v := range m {
		out = append(out, MapEntry[K, V]{k, v})
	}
	if len(out) < 2 {
		return out
	}
	kind := reflect.ValueOf(out[0].K).Kind()
	sort.Slice(out, func(i, j int) bool {
		a, b := reflect.ValueOf(out[i].K), reflect.ValueOf(out[j].K)
		if a.Kind() != kind || b.Kind() != kind {
			return fmt.Sprint(out[i].K) < fmt.Sprint(out[j].K)
		}
		switch kind {
		case reflect.Int, reflect.Int8, reflect.Int16, reflect.Int32, reflect.Int64:
			return a.Int() < b.Int()
		case reflect.Uint, reflect.Uint8, reflect.Uint16, reflect.Uint32, reflect.Uint64, reflect.Uintptr:
			return a.Uint() < b.Uint()
		case reflect.Float32, reflect.Float64:
			return a.Float() < b.Float()
		case reflect.String:
			return a.String() < b.String()
		}
		return fmt.Sprint(out[i].K) < fmt.Sprint(out[j].K)
	})
	return out
}
