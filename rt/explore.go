package verifrt

import (
	"fmt"
	"os"
	"runtime/debug"
	"sort"
	"time"
)

// Outcome is what one execution of a scenario produced, as judged by its oracle.
type Outcome struct {
	Res        *Result
	Violations []string // oracle failures (empty = property held on this execution)
	Digest     string   // canonical summary of the observable outcome (for distinct-outcome counting)
}

// RunFunc executes the scenario once under cfg.
type RunFunc func(cfg Config) Outcome

type ExploreOpts struct {
	Bound      int  // maximal number of deviations (preemptions / early timers); <0: unbounded
	Cache      bool // prune by happens-before trace key
	TimersFree bool
	MaxTicks   int
	Horizon    int
	MaxExec    int       // 0: no cap
	Deadline   time.Time // zero: none
	Roots      [][]int   // subtree roots (nil: the whole tree)
	KeepViol   int       // keep at most this many violations (default 20)
	// SplitAt > 0: explore breadth-first (largest subtrees first) and stop as soon as
	// at least SplitAt unexplored subtree roots are pending; they are returned in
	// ExploreStats.Frontier for distribution over workers.
	SplitAt int
	// MaxCache bounds the number of trace keys kept for pruning (0: 6 million). Beyond it new keys are
	// not remembered any more: the search stays exhaustive, it only prunes less.
	MaxCache int
	// MemLimitMB: when the process's resident set exceeds it, the cache is dropped once; if that does not
	// help the exploration stops and is reported as incomplete (0: 2500).
	MemLimitMB int
}

// pend is one unexplored alternative: the first i choices of base, then alt. base is shared by all
// alternatives discovered in one execution, so the stack costs O(depth) per execution, not O(depth^2).
type pend struct {
	base []int32
	i    int
	alt  int32
}

func (p pend) prefix() []int {
	out := make([]int, p.i+1)
	for j := 0; j < p.i; j++ {
		out[j] = int(p.base[j])
	}
	out[p.i] = int(p.alt)
	return out
}

func rssMB() int {
	b, err := os.ReadFile("/proc/self/statm")
	if err != nil {
		return 0
	}
	var size, rss int
	fmt.Sscan(string(b), &size, &rss)
	return rss * (os.Getpagesize() / 1024) / 1024
}

type Violation struct {
	Msg        string
	Choices    []int
	Deviations int
	Names      []string `json:",omitempty"`
}

type ExploreStats struct {
	Executions   int
	States       int // distinct trace keys seen at choice points (+ final states)
	Transitions  int // scheduling points executed
	ChoicePoints int
	Pruned       int
	MaxDepth     int
	MaxPoints    int
	Outcomes     map[string]int
	Violations   []Violation
	NViolations  int
	Complete     bool // the stated bound was explored completely (no cap, no deadline)
	Horizons     int
	Diverged     []string
	PerThreadMax map[string]int
	Sample       []string
	Frontier     [][]int `json:",omitempty"`
	CacheCapped  bool     `json:",omitempty"` // the pruning cache reached MaxCache (less pruning, same coverage)
	CacheDropped int      `json:",omitempty"` // times the cache was dropped under memory pressure
	MemStop      bool     `json:",omitempty"` // stopped because of MemLimitMB (Complete is false)
}

type cacheKey struct {
	k    h128
	run  int
	cost int
}

// ExploreDFS performs the depth-first search of DESIGN.md 2.2 below the given roots.
func ExploreDFS(run RunFunc, o ExploreOpts) *ExploreStats {
	st := &ExploreStats{Outcomes: map[string]int{}, Complete: true, PerThreadMax: map[string]int{}}
	if o.KeepViol == 0 {
		o.KeepViol = 20
	}
	if o.MaxCache == 0 {
		o.MaxCache = 6000000
	}
	if o.MemLimitMB == 0 {
		o.MemLimitMB = 2500
	}
	seen := map[cacheKey]struct{}{}
	finals := map[h128]struct{}{}
	nseen, nfinals := 0, 0 // counted separately: the maps may be capped or dropped
	var stack []pend
	roots := o.Roots
	if roots == nil {
		roots = [][]int{{}}
	}
	for _, r := range roots {
		if len(r) == 0 {
			stack = append(stack, pend{i: -1})
			continue
		}
		b := make([]int32, len(r))
		for j, c := range r {
			b[j] = int32(c)
		}
		stack = append(stack, pend{base: b, i: len(r) - 1, alt: int32(r[len(r)-1])})
	}
	for len(stack) > 0 {
		if o.SplitAt > 0 && len(stack) >= o.SplitAt {
			for _, p := range stack {
				if p.i < 0 {
					st.Frontier = append(st.Frontier, []int{})
				} else {
					st.Frontier = append(st.Frontier, p.prefix())
				}
			}
			break
		}
		if (o.MaxExec > 0 && st.Executions >= o.MaxExec) || (!o.Deadline.IsZero() && st.Executions%64 == 0 && time.Now().After(o.Deadline)) {
			st.Complete = false
			break
		}
		if st.Executions%512 == 511 && rssMB() > o.MemLimitMB {
			if st.CacheDropped == 0 {
				seen = map[cacheKey]struct{}{}
				finals = map[h128]struct{}{}
				st.CacheDropped++
				debug.FreeOSMemory()
			} else if rssMB() > o.MemLimitMB*3/2 {
				st.MemStop = true
				st.Complete = false
				break
			}
		}
		var pp pend
		if o.SplitAt > 0 {
			pp = stack[0]
			stack = stack[1:]
		} else {
			pp = stack[len(stack)-1]
			stack[len(stack)-1] = pend{}
			stack = stack[:len(stack)-1]
		}
		var prefix []int
		if pp.i >= 0 {
			prefix = pp.prefix()
		}
		out := run(Config{Replay: prefix, TimersFree: o.TimersFree, MaxTicks: o.MaxTicks, Horizon: o.Horizon})
		res := out.Res
		st.Executions++
		st.Transitions += res.Points
		st.ChoicePoints += len(res.Choices)
		if len(res.Choices) > st.MaxDepth {
			st.MaxDepth = len(res.Choices)
		}
		if res.Points > st.MaxPoints {
			st.MaxPoints = res.Points
		}
		for k, v := range res.PerThread {
			if v > st.PerThreadMax[k] {
				st.PerThreadMax[k] = v
			}
		}
		if res.Diverged != "" || len(res.Choices) < len(prefix) {
			st.Diverged = append(st.Diverged, fmt.Sprintf("prefix %v: %s (choices made %d)", prefix, res.Diverged, len(res.Choices)))
			st.Complete = false
			continue
		}
		if res.Horizon {
			st.Horizons++
		}
		if _, ok := finals[res.FinalKey]; !ok {
			nfinals++
			if len(finals) < o.MaxCache {
				finals[res.FinalKey] = struct{}{}
			}
		}
		st.Outcomes[out.Digest]++
		cost := 0
		var base []int32
		for i, cp := range res.Choices {
			if i >= len(prefix) {
				key := cacheKey{k: cp.Key}
				if o.Bound >= 0 {
					key.run, key.cost = cp.Run, cost
				}
				if _, dup := seen[key]; dup {
					if o.Cache {
						st.Pruned++
						break
					}
				} else {
					nseen++
					if len(seen) < o.MaxCache {
						seen[key] = struct{}{}
					} else {
						st.CacheCapped = true
					}
				}
				for alt := cp.N - 1; alt >= 0; alt-- {
					if alt == cp.Chosen {
						continue
					}
					if o.Bound >= 0 && cost+int(cp.Costs[alt]) > o.Bound {
						continue
					}
					if base == nil {
						base = make([]int32, len(res.Choices))
						for j := range res.Choices {
							base[j] = int32(res.Choices[j].Chosen)
						}
					}
					stack = append(stack, pend{base: base, i: i, alt: int32(alt)})
				}
			}
			cost += int(cp.Costs[cp.Chosen])
		}
		if len(out.Violations) > 0 {
			st.NViolations += len(out.Violations)
			ch := make([]int, len(res.Choices))
			for j := range res.Choices {
				ch[j] = res.Choices[j].Chosen
			}
			for _, m := range out.Violations {
				if len(st.Violations) < o.KeepViol {
					st.Violations = append(st.Violations, Violation{Msg: m, Choices: ch, Deviations: cost})
				}
			}
		}
	}
	st.States = nseen + nfinals
	sort.SliceStable(st.Violations, func(a, b int) bool { return st.Violations[a].Deviations < st.Violations[b].Deviations })
	return st
}

// Split explores breadth-first from the root until at least n subtree roots are
// pending (or the tree is exhausted) and returns them with the statistics of the
// executions performed on the way.
func Split(run RunFunc, o ExploreOpts, n int) ([][]int, *ExploreStats) {
	o.SplitAt = n
	o.Roots = nil
	st := ExploreDFS(run, o)
	f := st.Frontier
	st.Frontier = nil
	return f, st
}

// Merge adds b into a.
func (a *ExploreStats) Merge(b *ExploreStats) {
	a.Executions += b.Executions
	a.States += b.States
	a.Transitions += b.Transitions
	a.ChoicePoints += b.ChoicePoints
	a.Pruned += b.Pruned
	a.Horizons += b.Horizons
	a.NViolations += b.NViolations
	if b.MaxDepth > a.MaxDepth {
		a.MaxDepth = b.MaxDepth
	}
	if b.MaxPoints > a.MaxPoints {
		a.MaxPoints = b.MaxPoints
	}
	if a.Outcomes == nil {
		a.Outcomes = map[string]int{}
	}
	for k, v := range b.Outcomes {
		a.Outcomes[k] += v
	}
	if a.PerThreadMax == nil {
		a.PerThreadMax = map[string]int{}
	}
	for k, v := range b.PerThreadMax {
		if v > a.PerThreadMax[k] {
			a.PerThreadMax[k] = v
		}
	}
	a.Violations = append(a.Violations, b.Violations...)
	sort.SliceStable(a.Violations, func(x, y int) bool { return a.Violations[x].Deviations < a.Violations[y].Deviations })
	if len(a.Violations) > 40 {
		a.Violations = a.Violations[:40]
	}
	a.Diverged = append(a.Diverged, b.Diverged...)
	a.Complete = a.Complete && b.Complete
	a.CacheCapped = a.CacheCapped || b.CacheCapped
	a.CacheDropped += b.CacheDropped
	a.MemStop = a.MemStop || b.MemStop
}
