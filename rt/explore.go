package verifrt

import (
	"fmt"
	"sort"
	"time"
)

// Outcome is what one execution of a scenario produced, as judged by its oracle.
type Outcome struct {
	Res        *Result
	Violations []string // oracle failures (empty = property held on this execution)
	Digest     string   // canonical summary of the observable outcome (for distinct-outcome counting)
}

// RunFunc executes the scenario once under cfg.
type RunFunc func(cfg Config) Outcome

type ExploreOpts struct {
	Bound      int  // maximal number of deviations (preemptions / early timers); <0: unbounded
	Cache      bool // prune by happens-before trace key
	TimersFree bool
	MaxTicks   int
	Horizon    int
	MaxExec    int       // 0: no cap
	Deadline   time.Time // zero: none
	Roots      [][]int   // subtree roots (nil: the whole tree)
	KeepViol   int       // keep at most this many violations (default 20)
	// SplitAt > 0: explore breadth-first (largest subtrees first) and stop as soon as
	// at least SplitAt unexplored subtree roots are pending; they are returned in
	// ExploreStats.Frontier for distribution over workers.
	SplitAt int
}

type Violation struct {
	Msg        string
	Choices    []int
	Deviations int
	Names      []string `json:",omitempty"`
}

type ExploreStats struct {
	Executions   int
	States       int // distinct trace keys seen at choice points (+ final states)
	Transitions  int // scheduling points executed
	ChoicePoints int
	Pruned       int
	MaxDepth     int
	MaxPoints    int
	Outcomes     map[string]int
	Violations   []Violation
	NViolations  int
	Complete     bool // the stated bound was explored completely (no cap, no deadline)
	Horizons     int
	Diverged     []string
	PerThreadMax map[string]int
	Sample       []string
	Frontier     [][]int `json:",omitempty"`
}

type cacheKey struct {
	k    h128
	run  int
	cost int
}

// ExploreDFS performs the depth-first search of DESIGN.md 2.2 below the given roots.
func ExploreDFS(run RunFunc, o ExploreOpts) *ExploreStats {
	st := &ExploreStats{Outcomes: map[string]int{}, Complete: true, PerThreadMax: map[string]int{}}
	if o.KeepViol == 0 {
		o.KeepViol = 20
	}
	seen := map[cacheKey]struct{}{}
	finals := map[h128]struct{}{}
	stack := o.Roots
	if stack == nil {
		stack = [][]int{{}}
	}
	stack = append([][]int(nil), stack...)
	for len(stack) > 0 {
		if o.SplitAt > 0 && len(stack) >= o.SplitAt {
			st.Frontier = stack
			break
		}
		if (o.MaxExec > 0 && st.Executions >= o.MaxExec) || (!o.Deadline.IsZero() && st.Executions%64 == 0 && time.Now().After(o.Deadline)) {
			st.Complete = false
			break
		}
		var prefix []int
		if o.SplitAt > 0 {
			prefix = stack[0]
			stack = stack[1:]
		} else {
			prefix = stack[len(stack)-1]
			stack = stack[:len(stack)-1]
		}
		out := run(Config{Replay: prefix, TimersFree: o.TimersFree, MaxTicks: o.MaxTicks, Horizon: o.Horizon})
		res := out.Res
		st.Executions++
		st.Transitions += res.Points
		st.ChoicePoints += len(res.Choices)
		if len(res.Choices) > st.MaxDepth {
			st.MaxDepth = len(res.Choices)
		}
		if res.Points > st.MaxPoints {
			st.MaxPoints = res.Points
		}
		for k, v := range res.PerThread {
			if v > st.PerThreadMax[k] {
				st.PerThreadMax[k] = v
			}
		}
		if res.Diverged != "" || len(res.Choices) < len(prefix) {
			st.Diverged = append(st.Diverged, fmt.Sprintf("prefix %v: %s (choices made %d)", prefix, res.Diverged, len(res.Choices)))
			st.Complete = false
			continue
		}
		if res.Horizon {
			st.Horizons++
		}
		finals[res.FinalKey] = struct{}{}
		st.Outcomes[out.Digest]++
		cost := 0
		for i, cp := range res.Choices {
			if i >= len(prefix) {
				key := cacheKey{k: cp.Key}
				if o.Bound >= 0 {
					key.run, key.cost = cp.Run, cost
				}
				if _, dup := seen[key]; dup && o.Cache {
					st.Pruned++
					break
				}
				seen[key] = struct{}{}
				for alt := cp.N - 1; alt >= 0; alt-- {
					if alt == cp.Chosen {
						continue
					}
					if o.Bound >= 0 && cost+int(cp.Costs[alt]) > o.Bound {
						continue
					}
					np := make([]int, i+1)
					for j := 0; j < i; j++ {
						np[j] = res.Choices[j].Chosen
					}
					np[i] = alt
					stack = append(stack, np)
				}
			}
			cost += int(cp.Costs[cp.Chosen])
		}
		if len(out.Violations) > 0 {
			st.NViolations += len(out.Violations)
			ch := make([]int, len(res.Choices))
			for j := range res.Choices {
				ch[j] = res.Choices[j].Chosen
			}
			for _, m := range out.Violations {
				if len(st.Violations) < o.KeepViol {
					st.Violations = append(st.Violations, Violation{Msg: m, Choices: ch, Deviations: cost})
				}
			}
		}
	}
	st.States = len(seen) + len(finals)
	sort.SliceStable(st.Violations, func(a, b int) bool { return st.Violations[a].Deviations < st.Violations[b].Deviations })
	return st
}

// Split explores breadth-first from the root until at least n subtree roots are
// pending (or the tree is exhausted) and returns them with the statistics of the
// executions performed on the way.
func Split(run RunFunc, o ExploreOpts, n int) ([][]int, *ExploreStats) {
	o.SplitAt = n
	o.Roots = nil
	st := ExploreDFS(run, o)
	f := st.Frontier
	st.Frontier = nil
	return f, st
}

// Merge adds b into a.
func (a *ExploreStats) Merge(b *ExploreStats) {
	a.Executions += b.Executions
	a.States += b.States
	a.Transitions += b.Transitions
	a.ChoicePoints += b.ChoicePoints
	a.Pruned += b.Pruned
	a.Horizons += b.Horizons
	a.NViolations += b.NViolations
	if b.MaxDepth > a.MaxDepth {
		a.MaxDepth = b.MaxDepth
	}
	if b.MaxPoints > a.MaxPoints {
		a.MaxPoints = b.MaxPoints
	}
	if a.Outcomes == nil {
		a.Outcomes = map[string]int{}
	}
	for k, v := range b.Outcomes {
		a.Outcomes[k] += v
	}
	if a.PerThreadMax == nil {
		a.PerThreadMax = map[string]int{}
	}
	for k, v := range b.PerThreadMax {
		if v > a.PerThreadMax[k] {
			a.PerThreadMax[k] = v
		}
	}
	a.Violations = append(a.Violations, b.Violations...)
	sort.SliceStable(a.Violations, func(x, y int) bool { return a.Violations[x].Deviations < a.Violations[y].Deviations })
	if len(a.Violations) > 40 {
		a.Violations = a.Violations[:40]
	}
	a.Diverged = append(a.Diverged, b.Diverged...)
	a.Complete = a.Complete && b.Complete
}
