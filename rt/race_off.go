//go:build !race

package verifrt

const RaceBuild = false

func raceDisable() {}
func raceEnable()  {}
