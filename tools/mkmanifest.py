#!/usr/bin/env python3
"""Regenerates /verif/MANIFEST.json from the table below (keep it valid at all times)."""
import json, os
V = os.path.dirname(os.path.dirname(os.path.abspath(__file__)))
props = [json.loads(l) for l in open(os.path.join(V, "properties.jsonl"))]
ASSUME = ("Trusted base: the Go toolchain and race detector, the instrumenter (tools/instrument) and the controlled runtime (rt/); "
          "sequentially consistent interleavings at synchronisation operations (data races are detected separately on every explored schedule); "
          "alphabets and bounds as stated in the evidence file.")
claimed = {
 "C09": dict(cat="model_checking", tech="stateless schedule exploration of the real code (iterative preemption bounding) + race detector per schedule",
             text="Every interleaving of 2 connection threads (bind/bind, unbind+bind/bind, two features) up to the stated preemption bound is executed on the real BindingManager under a controlled scheduler; at the end of each schedule |bindings per server feature| <= 1, one result per call, grants == registry entries, ids distinct.",
             ref="4 C09"),
 "C08": dict(cat="model_checking", tech="explicit-state BFS over operation histories on the real code (replay on a fresh instance), reference model stepped alongside",
             text="Breadth-first search to closure over subscribe/unsubscribe (valid, duplicate, wrong role/type, unknown addresses, omitted device) and data changes by two peers with identical numbering; after every transition the real registry, every outbound datagram of every connection and the event log are compared with a reference registry (exactly one notify per subscriber, nobody else).",
             ref="4 C08"),
 "C03": dict(cat="model_checking", tech="explicit-state BFS over operation histories on the real code, reference model stepped alongside",
             text="Breadth-first search over bind/unbind/disconnect/reconnect/entity removal/write histories of two peers against two server features (writable and read-only functions); every write is judged: accepted iff the reference registry holds exactly that binding and the function is writable; otherwise store, subscribers' connections and event log unchanged and exactly one error result.",
             ref="4 C03"),
 "C10": dict(cat="model_checking", tech="explicit-state BFS over operation histories on the real code (virtual clock for approval timeouts), reference model stepped alongside",
             text="Breadth-first search over histories of subscribe/bind/local client bookkeeping/writes pending approval/disconnect/entity removal/reconnect/timer expiry by two peers with identical numbering; after each transition registries, bookkeeping, pending approvals, armed timers, resolution by SKI/address, events and every connection's outbound trace (including removed connections) are compared with the reference.",
             ref="4 C10"),
 "C12": dict(cat="model_checking", tech="stateless schedule exploration of the real code with a virtual clock (timer expiry is a scheduler choice), iterative deviation bounding, race detector per schedule",
             text="For 1-3 approval callbacks, all verdict vectors over {approve, deny, silent+late} and one or two concurrently pending writes, every interleaving of the callback goroutines, the delivering connection and the approval timeout up to the stated deviation bound is executed on the real FeatureLocal; per write: presented once to every callback, exactly one outcome, deny/silent => error and data unchanged, unanimous approval before the timeout => applied.",
             ref="4 C12"),
 "C13": dict(cat="model_checking", tech="explicit-state BFS over request/response and notify/lookup histories + stateless schedule exploration of 3 threads on one Sender, race detector per schedule",
             text="BFS to closure over requests (2 destinations x 2 commands x read/call) and responses (outstanding, answered, unknown), from preludes of 19-23 unanswered requests and of 98-101 notifications, against a reference set of unanswered requests; all interleavings of three threads calling Request/Notify/Write/Reply/Result/Subscribe/Bind up to the preemption bound: counters distinct, increasing for non-overlapping calls, withheld only for an identical unanswered request, bounded memory, last 100 notifications retrievable.",
             ref="4 C13"),
 "C15": dict(cat="model_checking", tech="stateless schedule exploration of the real event bus (iterative preemption bounding / trace-key pruning), call/return history oracle, race detector per schedule",
             text="Six closed drivers (publish vs subscribe/unsubscribe, two publishers, (un)subscription and publication from inside handlers, a handler that blocks until Publish returned, double subscription) with two core and two application handlers; every interleaving up to the bound; the call/return log decides per (handler, event) whether delivery must happen once, must not happen, or may; core handlers finish before Publish returns and before any application handler starts; no deadlock.",
             ref="4 C15"),
 "C16": dict(cat="model_checking", tech="stateless schedule exploration of the real heartbeat manager with a virtual clock (ticks and select choices are scheduler decisions), iterative deviation bounding, race detector per schedule",
             text="API sequences over {AddFunctionType(heartbeat), StartHeartbeat, StopHeartbeat, IsHeartbeatRunning, RemoveEntity} on one thread and split over two threads, timeouts 100ms..60s, 3 ticks per ticker: every interleaving up to the bound runs on the real code; no panic, period <= announced timeout, strictly increasing counter in successive notifications, current timestamp, store == last notification, never two streams, at most one refresh after stop returned, running stream keeps refreshing.",
             ref="4 C16"),
 "C07": dict(cat="model_checking", tech="explicit-state BFS over operation histories on the real code with a reference tree + stateless schedule exploration of concurrent GetOrAddFeature (bounded and unbounded with trace-key pruning), race detector per schedule",
             text="BFS over AddEntity/RemoveEntity/GetOrAddFeature/AddFeature(duplicate)/AddFunctionType histories; after every transition a discovery read from a subscribed and from an unsubscribed peer is compared with the reference tree (entities, feature numbers, types, roles, descriptions, operations), every announced address is resolved back, add/remove notifications are checked (exactly one, to subscribers only, with the features), feature numbers never repeat; all interleavings of 2-3 concurrent GetOrAddFeature calls: one feature per type and role, identical object, distinct numbers.",
             ref="4 C07"),
 "C14": dict(cat="model_checking", tech="explicit-state BFS over registration/reply/result histories on the real code with a reference callback table + stateless schedule exploration of registration vs arrival, race detector per schedule",
             text="BFS over AddResponseCallback/AddResultCallback registrations (two features, two counters, identical and distinct function values) interleaved with replies and results (matching, non-matching, rejected, from two peers); after every transition the multiset of callback invocations (reference, originating remote feature, local feature, data) equals the reference; schedules: registration racing a reply, two matching messages on two connections: at most once, exactly once when registered before.",
             ref="4 C14"),
 "C20": dict(cat="model_checking", tech="explicit-state BFS over use-case operation histories on the real code with a reference map + stateless schedule exploration of concurrent read-modify-write cycles on different entities, race detector per schedule",
             text="BFS over add/remove/set-availability/remove-all/remove-entity histories on entities [1],[1,1],[2], two actors, two names; after every transition HasUseCaseSupport for all 12 triples and the nodeManagementUseCaseData reply read by a peer equal the reference map (version, availability, scenarios, sub-revision); all interleavings of two threads working on different entities: nothing is lost.",
             ref="4 C20"),
 "C19": dict(cat="exploration", tech="bounded exhaustive input enumeration on the real conversion functions (complete grids, no sampling), settable clock shim",
             text="Complete enumeration of all decimals k*10^-d (0<=d<=4, |k|<=2e5 quick / 5e6 thorough), a structured magnitude grid below 1e14, all durations n*100ms up to 1e6 / 4e7 plus strides to 33 years, every second of a dense week and month boundaries of all years 1..9999, and relative end times read back with a stepped clock; each input is converted on the real code and compared with the exact expectation.",
             ref="4 C19"),
 "C18": dict(cat="exploration", tech="bounded exhaustive input enumeration on the real code: complete function table x command shapes, and reflectively generated values of every model type, JSON round trip",
             text="Every function CreateFunctionData registers for every feature type the factory accepts (discovered from the working tree) x 9 command shapes is built through ReadCmdType/ReplyCmdType/NotifyOrWriteCmdType, encoded, decoded and compared (function, payload type, partial/delete split, selectors, elements); every exported struct type of package model x {zero, each single field, list lengths 0/1/2, all fields} to depth 3 is round-tripped through JSON and compared modulo absent==empty lists and relative end times under a fixed clock.",
             ref="4 C18"),
 "C02": dict(cat="model_checking", tech="explicit-state closure search over list states per Updater type on the real code (every transition through UpdateList, FeatureRemote.UpdateData, FeatureLocal.UpdateData), independent reference fold",
             text="For every type implementing model.Updater (discovered from the working tree) a breadth-first search to closure over all list states reachable with identifiers {1,2} (thorough {1,2,3}, depth 3) and two payload fields x an update menu of every filter shape (full, partial, identifier-less, partial+selector, empty selector update, delete by id/payload selector, delete elements, delete+partial); every transition is executed through the per-type UpdateList, the reply/notify path (persisting and not) and the local API and compared with an independent fold of the cmdOption rules, including the returned value, order by identifier and idempotence.",
             ref="4 C02"),
 "C04": dict(cat="model_checking", tech="bounded exhaustive enumeration of (existing list x remote write) on the real code through real write datagrams, with a differential oracle over unaddressed elements",
             text="For the list types with a boolean writecheck field (discovered from the working tree): all 64 existing lists over identifiers {1,2,3} with flag true/false/absent x 77 remote writes of every shape (full, partial, identifier-less, selector, delete by selector/elements (payload and flag field), delete+partial, each also trying to set the flag), delivered as write datagrams from a bound client; clauses: error => data unchanged, protected elements untouched, flags never change, unaddressed elements neither change nor influence the verdict (differential), success => every change applied.",
             ref="4 C04"),
 "C11": dict(cat="model_checking", tech="bounded exhaustive enumeration of (snapshot x ordered pairs of later updates x update path) on the real code + stateless schedule exploration of a reader vs an update with the race detector on every schedule",
             text="For every list function with numeric identifiers: objects retained by the application (value given to SetData, DataCopy of local and remote feature, data of the last data-change event, and every snapshot taken after each step) are photographed and compared after every update of every ordered pair from a menu of 8 shapes through 5 paths (local API, remote write, notify, reply, non-persisting UpdateData); non-persisting and rejected updates must leave the store unchanged; use-case snapshots vs later use-case operations; schedules: encoding a snapshot while a selector update / partial notify / remote write / use-case change is processed, functional comparison and race detector on every interleaving.",
             ref="4 C11"),
 "C06": dict(cat="model_checking", tech="explicit-state BFS over discovery-notification histories on the real code, reference tree and reference registries stepped alongside",
             text="BFS (depth 3 quick / 4 thorough, de-duplicated on tree + registries) over partial add/remove notifications for entities [1],[2],[1,1] in two variants, two-entity notifications (add+add, remove+remove, add+remove, remove+add), full notifications of entity subsets, repeated adds and removal of unknown entities from two peers, starting from a world with subscriptions, bindings and local client bookkeeping; after each message the tree reported by the API (addresses, types, descriptions, features, roles, operations, resolution by address), the entity events and the cascade into registries and bookkeeping are compared with the reference.",
             ref="4 C06"),
 "C05": dict(cat="model_checking", tech="bounded exhaustive enumeration of message mutants (deviation bound 1 quick / 2 thorough from 22 seed messages, all truncations) x 3 connection states, each executed on the real code under the controlled scheduler (panic capture in every goroutine, deadlock detection), followed by probe reads",
             text="All single-field mutations (remove, null, empty, wrong kind, unknown value) of every JSON node of 22 valid seed messages of every kind, every byte prefix and garbage wrappings, delivered in three connection states on a fresh world; thorough adds all mutation pairs and every (mutant, seed) ordered pair; after each: no goroutine panicked, no deadlock, handling terminated, and a valid discovery read on the mutant's connection and on another peer's connection is answered.",
             ref="4 C05"),
 "C01": dict(cat="model_checking", tech="bounded exhaustive enumeration of the classifier x function x ack x destination x peer matrix in two prior registry states on the real code under the controlled scheduler, reference response rules",
             text="For every feature type the factory accepts (local server and client feature of each, all functions readable, list functions writable) and two prior states (no bindings; A bound and subscribed, B subscribed): every datagram of {read,reply,notify,write,call,result} x every registered function x ackRequest absent/true x destination {server, client, non-existent feature, non-existent entity} x peer {A,B}, plus the NodeManagement message set, is delivered and the complete outbound trace of all connections is judged: exactly the prescribed reply/result, on the sender's connection, referencing the request, addressed to its source, named after the addressed local feature; reply payload equals the current data.",
             ref="4 C01"),
 "C17": dict(cat="model_checking", tech="stateless schedule exploration of every pair of 21 API-level operations (and six triples) on the real code in the race-enabled build: the race detector judges every explored schedule (scheduler hand-offs hidden with runtime.RaceDisable), deadlock detection by the scheduler",
             text="21 API-level operations (inbound read/write/notify/subscribe/bind/discovery on two connections, SetData, UpdateData, use cases, AddEntity/RemoveEntity, RequestRemoteData, SubscribeToRemote, approval verdict, heartbeat stop/start, connection removal, notify-cache lookup, readers); every unordered pair that can run concurrently (two messages of one connection cannot) and six triples run as threads on a prepared world; every interleaving up to the preemption bound is executed in the race build, followed by timer expiry; oracle: no race report with an access in spine-go, no deadlock, no panic, every thread finishes.",
             ref="4 C17"),
}
checks = []
for pid, c in sorted(claimed.items()):
    checks.append({
        "property_id": pid,
        "quick_cmd": f"bin/check {pid} quick",
        "thorough_cmd": f"bin/check {pid} thorough",
        "evidence_file": f"/verif/evidence/{pid}.json",
        "replay_cmd_template": f"bin/check {pid} quick --replay {{path}}",
        "engine": "verifrt",
        "level_claimed": {"category": c["cat"], "text": c["text"], "design_ref": "DESIGN.md section " + c["ref"]},
        "level_note": ASSUME,
        "technique": c["tech"],
    })
na = [{"property_id": p["id"], "reason": "check not built yet in this revision of /verif (work in progress; see DESIGN.md section 4 for the planned exhaustive exploration)"}
      for p in props if p["id"] not in claimed]
m = {
 "version": 1,
 "setup_cmd": "bin/setup",
 "hooks": {
  "guard": "verif (no in-tree hooks: checks instrument /repo's working tree at check time and build it with `go build -overlay`; nothing guarded is committed to the repository)",
  "enable": "bin/check runs tools/instrument on /repo's working tree (sync, sync/atomic, time imports -> shims; go statements, channel operations -> runtime calls) and builds with go build -overlay from cwd=/repo",
  "baseline_off_cmd": "cd /repo && GOFLAGS=-mod=mod go test -json -vet=off -count=1 -timeout 25m ./...",
  "source_commits": [],
  "add_only": True,
 },
 "engines": [
  {"name": "verifrt", "path": "rt/", "serves_properties": sorted(claimed), "kind_free_text": "controlled scheduler + stateless DFS over schedules (deviation-bounded / trace-key pruned), explicit-state BFS over operation histories, exhaustive input enumeration; all on the real code"},
 ],
 "checks": checks,
 "not_applicable": na,
 "notes": "See DESIGN.md. known_findings.json lists recorded and fixed defects.",
}
json.dump(m, open(os.path.join(V, "MANIFEST.json"), "w"), indent=1)
print("claimed", len(checks), "not_applicable", len(na))
