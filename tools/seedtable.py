#!/usr/bin/env python3
"""Prints the markdown table of seeded changes (DESIGN.md section 11) from seeded/*/meta.json and confirmed.json."""
import json, glob, os
V = os.path.dirname(os.path.dirname(os.path.abspath(__file__)))
needed = {"C09-a","C02-a","C04-a","C13-a","C10-a","C11-a","C01-a","C07-a","C03-a",
          "C06-b","C03-b","C08-b","C16-b","C07-b","C05-b","C15-b","C02-b","C04-b","C17-b","C19-b"}
print("| seed | what was changed | what it needs | caught by (first finding) | check changed to catch it |")
print("|---|---|---|---|---|")
for d in sorted(glob.glob(os.path.join(V, "seeded", "*"))):
    n = os.path.basename(d)
    try:
        m = json.load(open(os.path.join(d, "meta.json")))
        c = json.load(open(os.path.join(d, "confirmed.json")))
    except Exception as e:
        print(f"| {n} | (unconfirmed: {e}) | | | |"); continue
    caught = "; ".join(f"{x['check']}: {x['first_finding'][:90]}" if x["exit"] == 1 else f"{x['check']}: MISSED (exit {x['exit']})" for x in c["checks"])
    ok = c["repository_tests_with_change"] == "pass" and c["demo_with_change"] == "fails" and c["demo_without_change"] == "passes"
    print(f"| {n} | {m.get('summary','')[:170]} | {m.get('needs','')[:120]} | {caught}{'' if ok else ' (NOT CONFIRMED)'} | {'yes' if (n in needed or m.get('check_strengthened')) else 'no'} |".replace("\n", " "))
