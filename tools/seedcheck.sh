#!/bin/bash
# seedcheck.sh <seed-dir> <property> [check ...]
# Confirms a seeded change in a fresh scratch worktree of /repo (never in /repo):
#  1. the patch applies, the library builds, the repository's own tests pass;
#  2. the demonstration fails with the change and passes without it;
#  3. runs the given checks (default: the property's) against the worktree with the change applied.
# Appends what was run and seen to <seed-dir>/confirmed.json.
set -u
export GOFLAGS=-mod=mod GOPROXY=off GOSUMDB=off GOTOOLCHAIN=local
D="$1"; P="$2"; shift; shift; CHECKS="${*:-$P}"
# every instrumented build has its own overlay paths and so its own build cache entries: keep the disk from filling up
[ "$(df --output=avail -BG / | tail -1 | tr -dc 0-9)" -lt 40 ] && go clean -cache
WT="/tmp/wt/confirm-$$"
git -C /repo worktree add -q --detach "$WT" HEAD || exit 2
trap 'git -C /repo worktree remove --force "$WT" >/dev/null 2>&1' EXIT
cd "$WT"
git apply "$D/patch.diff" || { echo "patch does not apply"; exit 2; }
go build ./... || { echo "does not build"; exit 2; }
if go test -vet=off -count=1 ./... >/tmp/seed-$$.log 2>&1; then TESTS=pass; else TESTS=FAIL; fi
DEMO=$(ls "$D"/*_test.go | head -1)
PLACE=$(head -3 "$DEMO" | grep -o "place in: *[a-z_/]*" | sed 's/place in: *//' | tr -d ' ')
[ -z "$PLACE" ] && PLACE=spine/
cp "$DEMO" "$WT/$PLACE/zz_seeded_demo_test.go"
RUN=$(python3 -c "import json,sys;print(json.load(open('$D/meta.json')).get('demo_run','ZZ|Seeded|seeded'))" 2>/dev/null)
if go test -vet=off -count=1 -run "$RUN" "./$PLACE" >/tmp/seed-$$.with 2>&1; then WITH=passes; else WITH=fails; fi
git apply -R "$D/patch.diff"
if go test -vet=off -count=1 -run "$RUN" "./$PLACE" >/tmp/seed-$$.without 2>&1; then WITHOUT=passes; else WITHOUT=fails; fi
rm -f "$WT/$PLACE/zz_seeded_demo_test.go"
git apply "$D/patch.diff"
RES=""
: > /tmp/seed-$$.res
for c in $CHECKS; do
  out=$(cd /verif && VERIF_REPO="$WT" VERIF_OUT="$WT/.verif-out" bin/check "$c" quick 2>&1); rc=$?
  key=$(echo "$out" | grep "^  [^ ]" | head -1 | cut -c3-260 | sed 's/"/\\"/g')
  n=$(echo "$out" | grep -c "^VIOLATION property=$c")
  printf '%s\t%s\t%s\t%s\n' "$c" "$rc" "$n" "$(echo "$out" | grep "^  [^ ]" | head -1 | cut -c3-260)" >> /tmp/seed-$$.res
  echo "check $c: exit=$rc violations=$n $key"
done
echo "tests=$TESTS demo_with_change=$WITH demo_without_change=$WITHOUT"
python3 - "$D" "$P" "$TESTS" "$WITH" "$WITHOUT" "/tmp/seed-$$.res" <<'PY'
import json,sys,time
d,p,t,w,wo,resf=sys.argv[1:7]
rows=[l.rstrip("\n").split("\t") for l in open(resf)]
res=json.dumps([{"check":r[0],"exit":int(r[1]),"violation_lines":int(r[2]),"first_finding":r[3] if len(r)>3 else ""} for r in rows])
json.dump({"property":p,"confirmed_at":time.strftime("%Y-%m-%dT%H:%M:%SZ",time.gmtime()),"repository_tests_with_change":t,"demo_with_change":w,"demo_without_change":wo,
 "how":"fresh worktree of /repo HEAD; git apply patch.diff; go build ./...; go test -vet=off -count=1 ./...; demo copied in, go test -run; git apply -R; demo again; checks run with VERIF_REPO=<worktree> bin/check <id> quick",
 "checks":json.loads(res)},open(d+"/confirmed.json","w"),indent=1)
PY
rm -f /tmp/seed-$$.*
