#!/usr/bin/env python3
"""(Re)generates DESIGN.md section 11 (seeded changes) from seeded/*/{meta,confirmed}.json; inserted before section 12."""
import json, glob, os, re, subprocess
V = os.path.dirname(os.path.dirname(os.path.abspath(__file__)))
rows, caught, missed, strengthened = [], 0, [], 0
first_two = {"C09-a","C02-a","C04-a","C13-a","C10-a","C11-a","C01-a","C07-a","C03-a",
          "C06-b","C03-b","C08-b","C16-b","C07-b","C05-b","C15-b","C02-b","C04-b","C17-b","C19-b"}
for d in sorted(glob.glob(os.path.join(V, "seeded", "*"))):
    n = os.path.basename(d)
    try:
        m = json.load(open(os.path.join(d, "meta.json"))); c = json.load(open(os.path.join(d, "confirmed.json")))
    except Exception as e:
        rows.append(f"| {n} | (unconfirmed: {e}) | | | |"); continue
    hit = [x for x in c["checks"] if x["exit"] == 1]
    by = "; ".join(f"{x['check']}: {x['first_finding'][:100]}" for x in hit) or "MISSED: " + ", ".join(f"{x['check']} exit {x['exit']}" for x in c["checks"])
    if hit: caught += 1
    else: missed.append(n)
    st = n in first_two or m.get("check_strengthened")
    strengthened += 1 if st else 0
    clean = lambda s, k: re.sub(r"\s+", " ", s.replace("|", "/"))[:k]
    rows.append(f"| {n} | {clean(m.get('summary',''),190)} | {clean(m.get('needs',''),150)} | {clean(by,230)} | {'yes' if st else 'no'} |")
head = f"""## 11. Seeded changes written by independent sub-agents

Besides the own deliberate changes of `mutations/RESULTS.md` (section 6), every property was attacked by fresh
sub-agents that were given **only the text of the property** (from the second round on also one line per mechanism
already used, to be avoided) and a scratch worktree of /repo — nothing from /verif — and asked for a change that breaks
the property, still compiles, passes the repository's 237 tests and needs something specific to manifest (an
interleaving, a fault at a particular point, a multi-step history, an unusual input, two cooperating sites), together
with a demonstration test. Each change was confirmed by `tools/seedcheck.sh` in another fresh worktree (patch applies,
library builds, repository tests pass with the change, demonstration fails with it and passes without it) before it was
kept as `seeded/<id>/{{patch.diff, zz_seeded_demo_test.go, meta.json, confirmed.json}}`; the same script (later
`tools/recheck.sh`, against the checks and the repository HEAD as they are now) runs the property's quick check against
the changed worktree through `VERIF_REPO` and records exit status and first finding. None of these changes was ever
applied to /repo; patches that no longer applied after a later `fix:` commit were re-created by hand (`rebased` in
meta.json).

Seven rounds (`-a` … `-g`), {len(rows)} confirmed changes; {caught} are reported by the quick tier of a registered check
{'(all)' if not missed else '(not reported: ' + ', '.join(missed) + ')'}. The last column says whether the check had to be strengthened before
it reported the change — always a wider alphabet, a further scenario, a finer state key or a further oracle clause of
the *same* property, never a special case for the seeded change; what was added is described in sections 12.1, 12.4,
12.7, 12.9 and 12.10. {strengthened} of {len(rows)} needed a strengthening.

| seed | what was changed | what it needs | reported by (first finding) | check strengthened first |
|---|---|---|---|---|
"""
sec = head + "\n".join(rows) + "\n\n"
p = os.path.join(V, "DESIGN.md")
s = open(p).read()
s = re.sub(r"## 11\. Seeded changes written by independent sub-agents.*?(?=## 12\. )", "", s, flags=re.S)
i = s.index("## 12. Third session")
s = s[:i] + sec + s[i:]
open(p, "w").write(s)
print("rows", len(rows), "caught", caught, "missed", missed)
