#!/bin/bash
# tryseed.sh <worktree> <check> [check ...]: run quick checks against a scratch tree; nothing under /verif is written.
export GOFLAGS=-mod=mod GOPROXY=off GOSUMDB=off GOTOOLCHAIN=local
WT="$1"; shift
for c in "$@"; do
  echo "== $c on $WT"
  (cd /verif && VERIF_REPO="$WT" VERIF_OUT=/tmp/seedout timeout 1500 bin/check "$c" quick 2>&1 | grep -E "^  [^ ]|OK |ENGINE|rror:" | cut -c1-260 | head -4)
done
