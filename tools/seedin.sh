#!/bin/bash
# seedin.sh <Cxx> [suffix] [checks...]: take the deliverables of a round-3 sub-agent worktree into seeded/<Cxx>-<suffix> and confirm them.
P="$1"; S="${2:-f}"; shift; shift || true
D=/verif/seeded/$P-$S
mkdir -p "$D" && cp /tmp/wt/r6-$P/.seed/patch.diff /tmp/wt/r6-$P/.seed/meta.json /tmp/wt/r6-$P/.seed/*_test.go "$D"/ || exit 2
/verif/tools/seedcheck.sh "$D" "$P" "$@" 2>&1 | tail -4
