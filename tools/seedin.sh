#!/bin/bash
# seedin.sh <Cxx> [suffix] [checks...]: take the deliverables of a sub-agent worktree (/tmp/wt/$SEED_ROUND-<Cxx>, default r7) into seeded/<Cxx>-<suffix> and confirm them.
P="$1"; S="${2:-g}"; shift; shift || true
R="${SEED_ROUND:-r7}"
D=/verif/seeded/$P-$S
mkdir -p "$D" && cp /tmp/wt/$R-$P/.seed/patch.diff /tmp/wt/$R-$P/.seed/meta.json /tmp/wt/$R-$P/.seed/*_test.go "$D"/ || exit 2
/verif/tools/seedcheck.sh "$D" "$P" "$@" 2>&1 | tail -4
