// instrument rewrites the non-test files of spine-go's packages spine, model,
// util and api from the repository's *current working tree* so that they run on
// the controlled runtime (DESIGN.md 1.2), and writes a `go build -overlay` file
// that also injects the runtime, the harness packages and generated registries
// as virtual packages under <repo>/internal/. The repository is never written.
package main

import (
	"bytes"
	"encoding/json"
	"flag"
	"fmt"
	"go/ast"
	"go/format"
	"go/token"
	"go/types"
	"os"
	"os/exec"
	"path/filepath"
	"sort"
	"strconv"
	"strings"

	"golang.org/x/tools/go/ast/astutil"
	"golang.org/x/tools/go/packages"
)

const modPath = "github.com/enbility/spine-go"
const rtPath = modPath + "/internal/verifrt"

var shimFor = map[string][2]string{
	"sync":        {"sync", rtPath + "/vsync"},
	"sync/atomic": {"atomic", rtPath + "/vatomic"},
	"time":        {"time", rtPath + "/vtime"},
}

type stats struct {
	Files, Imports, GoStmts, Sends, Recvs, Makes, Closes, Selects, Ranges, MapRanges int
}

var st stats

func fatal(f string, a ...any) {
	fmt.Fprintf(os.Stderr, "instrument: "+f+"\n", a...)
	os.Exit(2)
}

func main() {
	repo := flag.String("repo", "/repo", "repository root")
	verif := flag.String("verif", "/verif", "verif root")
	out := flag.String("out", "", "scratch output directory")
	flag.Parse()
	if *out == "" {
		fatal("-out required")
	}
	cfg := &packages.Config{
		Mode: packages.NeedName | packages.NeedFiles | packages.NeedCompiledGoFiles | packages.NeedSyntax | packages.NeedTypes | packages.NeedTypesInfo | packages.NeedImports,
		Dir:  *repo,
		Env:  append(os.Environ(), "GOFLAGS=-mod=mod", "GOPROXY=off", "GOSUMDB=off"),
	}
	pkgs, err := packages.Load(cfg, "./spine", "./model", "./util", "./api")
	if err != nil {
		fatal("load: %v", err)
	}
	bad := false
	for _, p := range pkgs {
		for _, e := range p.Errors {
			fmt.Fprintf(os.Stderr, "instrument: %s: %v\n", p.PkgPath, e)
			bad = true
		}
	}
	if bad {
		os.Exit(2)
	}
	overlay := map[string]string{}
	var modelPkg *packages.Package
	for _, p := range pkgs {
		if p.PkgPath == modPath+"/model" {
			modelPkg = p
		}
		for i, f := range p.Syntax {
			name := p.CompiledGoFiles[i]
			if strings.HasSuffix(name, "_test.go") {
				continue
			}
			r := &rewriter{pkg: p, file: f, skip: map[ast.Node]bool{}}
			if !r.rewrite() {
				continue
			}
			var buf bytes.Buffer
			if err := format.Node(&buf, p.Fset, f); err != nil {
				fatal("print %s: %v", name, err)
			}
			rel, _ := filepath.Rel(*repo, name)
			dst := filepath.Join(*out, "src", rel)
			os.MkdirAll(filepath.Dir(dst), 0o755)
			if err := os.WriteFile(dst, buf.Bytes(), 0o644); err != nil {
				fatal("%v", err)
			}
			overlay[name] = dst
			st.Files++
		}
	}
	// virtual packages: runtime and harness
	addTree := func(srcRoot, dstRoot string) {
		filepath.Walk(srcRoot, func(path string, info os.FileInfo, err error) error {
			if err != nil || info.IsDir() || !strings.HasSuffix(path, ".go") {
				return nil
			}
			rel, _ := filepath.Rel(srcRoot, path)
			overlay[filepath.Join(dstRoot, rel)] = path
			return nil
		})
	}
	addTree(filepath.Join(*verif, "rt"), filepath.Join(*repo, "internal", "verifrt"))
	addTree(filepath.Join(*verif, "harness"), filepath.Join(*repo, "internal", "verifh"))
	// files injected into repository packages (private-state dumps)
	inj := filepath.Join(*verif, "inject")
	filepath.Walk(inj, func(path string, info os.FileInfo, err error) error {
		if err != nil || info.IsDir() || !strings.HasSuffix(path, ".go") {
			return nil
		}
		rel, _ := filepath.Rel(inj, path)
		overlay[filepath.Join(*repo, rel)] = path
		return nil
	})
	// the logging package of ship-go serialises every Log() call through one package-level
	// mutex. It is no part of the stack's synchronisation, but its happens-before edges would
	// hide most data races from the race detector (and its calls are no scheduling points):
	// replace Log() by a version without the mutex (SetLogging is never called by the harness).
	lcmd := exec.Command("go", "list", "-f", "{{.Dir}}", "github.com/enbility/ship-go/logging")
	lcmd.Dir = *repo
	lcmd.Env = cfg.Env
	if dir, err := lcmd.Output(); err == nil {
		d := strings.TrimSpace(string(dir))
		files, _ := filepath.Glob(filepath.Join(d, "*.go"))
		for _, f := range files {
			if strings.HasSuffix(f, "_test.go") {
				continue
			}
			b, err := os.ReadFile(f)
			if err != nil || !bytes.Contains(b, []byte("func Log() LoggingInterface {")) {
				continue
			}
			src := string(b)
			i := strings.Index(src, "func Log() LoggingInterface {")
			j := i + strings.Index(src[i:], "\n}\n")
			src = src[:i] + "func Log() LoggingInterface {\n\treturn log\n}\n" + src[j+3:]
			dst := filepath.Join(*out, "src", "shiplogging", filepath.Base(f))
			os.MkdirAll(filepath.Dir(dst), 0o755)
			os.WriteFile(dst, []byte(src), 0o644)
			overlay[f] = dst
			st.Files++
		}
	} else {
		fmt.Fprintf(os.Stderr, "instrument: cannot locate ship-go/logging: %v\n", err)
	}
	// generated registry of model types
	if modelPkg != nil {
		gen := genRegistry(modelPkg)
		dst := filepath.Join(*out, "src", "gen", "registry.go")
		os.MkdirAll(filepath.Dir(dst), 0o755)
		os.WriteFile(dst, gen, 0o644)
		overlay[filepath.Join(*repo, "internal", "verifh", "gen", "registry.go")] = dst
	}
	ov, _ := json.MarshalIndent(map[string]any{"Replace": overlay}, "", " ")
	if err := os.WriteFile(filepath.Join(*out, "overlay.json"), ov, 0o644); err != nil {
		fatal("%v", err)
	}
	sj, _ := json.Marshal(st)
	os.WriteFile(filepath.Join(*out, "instrument.json"), sj, 0o644)
	fmt.Fprintf(os.Stderr, "instrument: %s\n", sj)
}

type rewriter struct {
	pkg          *packages.Package
	file         *ast.File
	skip         map[ast.Node]bool
	needRT       bool
	changed      bool
	tmp          int
	recvCalls    []*ast.CallExpr
	nativeAssign []*ast.AssignStmt
}

func (r *rewriter) pos(n ast.Node) string { return r.pkg.Fset.Position(n.Pos()).String() }

func (r *rewriter) rt(name string) ast.Expr {
	r.needRT = true
	return &ast.SelectorExpr{X: ast.NewIdent("verifrt"), Sel: ast.NewIdent(name)}
}

func (r *rewriter) isChan(e ast.Expr) bool {
	tv, ok := r.pkg.TypesInfo.Types[e]
	if !ok || tv.Type == nil {
		return false
	}
	_, isc := tv.Type.Underlying().(*types.Chan)
	return isc
}

func (r *rewriter) isBuiltin(fun ast.Expr, name string) bool {
	id, ok := fun.(*ast.Ident)
	if !ok || id.Name != name {
		return false
	}
	_, isb := r.pkg.TypesInfo.Uses[id].(*types.Builtin)
	return isb
}

func (r *rewriter) fresh(prefix string) *ast.Ident {
	r.tmp++
	return ast.NewIdent(fmt.Sprintf("_v%s%d", prefix, r.tmp))
}

func define(lhs ast.Expr, rhs ast.Expr) ast.Stmt {
	return &ast.AssignStmt{Lhs: []ast.Expr{lhs}, Tok: token.DEFINE, Rhs: []ast.Expr{rhs}}
}

func (r *rewriter) rewrite() bool {
	// 1. imports
	for _, im := range r.file.Imports {
		p, _ := strconv.Unquote(im.Path.Value)
		if sh, ok := shimFor[p]; ok {
			if im.Name == nil {
				im.Name = ast.NewIdent(sh[0])
			}
			im.Path.Value = strconv.Quote(sh[1])
			im.EndPos = 0
			r.changed = true
			st.Imports++
		}
	}
	// 2. statements and expressions
	astutil.Apply(r.file, r.pre, r.post)
	if r.needRT {
		astutil.AddNamedImport(r.pkg.Fset, r.file, "verifrt", rtPath)
		r.changed = true
		// statements were rewritten: free-floating comments would be misplaced by the
		// printer; keep them only if the file carries compiler directives
		keep := false
		for _, cg := range r.file.Comments {
			for _, cm := range cg.List {
				if strings.HasPrefix(cm.Text, "//go:") && !strings.HasPrefix(cm.Text, "//go:generate") {
					keep = true
				}
			}
		}
		if !keep {
			r.file.Comments = nil
		}
	}
	return r.changed
}

func (r *rewriter) pre(c *astutil.Cursor) bool {
	n := c.Node()
	if n == nil || r.skip[n] {
		return !r.skip[n] || n == nil
	}
	switch s := n.(type) {
	case *ast.LabeledStmt:
		switch s.Stmt.(type) {
		case *ast.SelectStmt:
			fatal("%s: labeled select is not supported by the instrumenter", r.pos(s))
		case *ast.RangeStmt:
			if r.isChan(s.Stmt.(*ast.RangeStmt).X) {
				fatal("%s: labeled range over a channel is not supported by the instrumenter", r.pos(s))
			}
		}
	case *ast.SelectStmt:
		// the communication operations of the cases stay native (the select itself is
		// rewritten in post-order, after nested statements have been handled)
		for _, cl := range s.Body.List {
			cc := cl.(*ast.CommClause)
			switch cm := cc.Comm.(type) {
			case *ast.ExprStmt:
				r.skip[cm.X] = true
			case *ast.AssignStmt:
				if len(cm.Rhs) == 1 {
					r.skip[cm.Rhs[0]] = true
				}
			case *ast.SendStmt:
				r.skip[cm] = true
			}
		}
	}
	return true
}

func (r *rewriter) post(c *astutil.Cursor) bool {
	n := c.Node()
	if n == nil || r.skip[n] {
		return true
	}
	switch s := n.(type) {
	case *ast.SelectStmt:
		c.Replace(r.rewriteSelect(s))
		st.Selects++
	case *ast.GoStmt:
		c.Replace(r.rewriteGo(s))
		st.GoStmts++
	case *ast.SendStmt:
		c.Replace(&ast.ExprStmt{X: &ast.CallExpr{Fun: r.rt("Send"), Args: []ast.Expr{s.Chan, s.Value}}})
		st.Sends++
	case *ast.AssignStmt:
		if len(s.Rhs) == 1 && len(s.Lhs) == 2 {
			if u, ok := s.Rhs[0].(*ast.CallExpr); ok && r.isRecvCall(u) {
				u.Fun = r.rt("Recv2")
			}
		}
	case *ast.ValueSpec:
		if len(s.Values) == 1 && len(s.Names) == 2 {
			if u, ok := s.Values[0].(*ast.CallExpr); ok && r.isRecvCall(u) {
				u.Fun = r.rt("Recv2")
			}
		}
	case *ast.UnaryExpr:
		if s.Op == token.ARROW {
			call := &ast.CallExpr{Fun: r.rt("Recv"), Args: []ast.Expr{s.X}}
			r.recvCalls = append(r.recvCalls, call)
			c.Replace(call)
			st.Recvs++
		}
	case *ast.CallExpr:
		switch {
		case r.isBuiltin(s.Fun, "make") && len(s.Args) >= 1 && r.isChan(s):
			ct, ok := s.Args[0].(*ast.ChanType)
			if !ok {
				fatal("%s: make of a named channel type is not supported by the instrumenter", r.pos(s))
			}
			var size ast.Expr = &ast.BasicLit{Kind: token.INT, Value: "0"}
			if len(s.Args) > 1 {
				size = s.Args[1]
			}
			c.Replace(&ast.CallExpr{Fun: &ast.IndexExpr{X: r.rt("MakeChan"), Index: ct.Value}, Args: []ast.Expr{size}})
			st.Makes++
		case r.isBuiltin(s.Fun, "close") && len(s.Args) == 1:
			s.Fun = r.rt("Close")
			st.Closes++
		case (r.isBuiltin(s.Fun, "len") || r.isBuiltin(s.Fun, "cap")) && len(s.Args) == 1 && r.isChan(s.Args[0]):
			fatal("%s: len/cap of a channel is not supported by the instrumenter", r.pos(s))
		}
	case *ast.RangeStmt:
		if r.isChan(s.X) {
			c.Replace(r.rewriteRange(s))
			st.Ranges++
		} else if r.isMap(s.X) && r.rewriteMapRange(s) {
			st.MapRanges++
		}
	}
	return true
}

func (r *rewriter) isMap(e ast.Expr) bool {
	tv, ok := r.pkg.TypesInfo.Types[e]
	if !ok || tv.Type == nil {
		return false
	}
	_, ism := tv.Type.Underlying().(*types.Map)
	return ism
}

func isBlank(e ast.Expr) bool {
	id, ok := e.(*ast.Ident)
	return e == nil || (ok && id.Name == "_")
}

// for k, v := range m { body }  =>  for _, _ve := range verifrt.MapEntries(m) { k, v := _ve.K, _ve.V; body }
// Go randomises the iteration order of maps; under the controlled scheduler the order has to be a function
// of the map's contents (sorted keys), otherwise the sequence of scheduling points of a replayed schedule
// changes from run to run. The statement is changed in place, so that labels stay attached to it.
func (r *rewriter) rewriteMapRange(s *ast.RangeStmt) bool {
	if isBlank(s.Key) && isBlank(s.Value) {
		return false // only the number of iterations matters
	}
	e := r.fresh("e")
	var lhs, rhs []ast.Expr
	if !isBlank(s.Key) {
		lhs = append(lhs, s.Key)
		rhs = append(rhs, &ast.SelectorExpr{X: e, Sel: ast.NewIdent("K")})
	}
	if !isBlank(s.Value) {
		lhs = append(lhs, s.Value)
		rhs = append(rhs, &ast.SelectorExpr{X: e, Sel: ast.NewIdent("V")})
	}
	head := &ast.AssignStmt{Lhs: lhs, Tok: s.Tok, Rhs: rhs}
	s.X = &ast.CallExpr{Fun: r.rt("MapEntries"), Args: []ast.Expr{s.X}}
	s.Key, s.Value, s.Tok = ast.NewIdent("_"), e, token.DEFINE
	s.Body.List = append([]ast.Stmt{head}, s.Body.List...)
	return true
}

func (r *rewriter) isRecvCall(c *ast.CallExpr) bool {
	for _, x := range r.recvCalls {
		if x == c {
			return true
		}
	}
	return false
}

// go f(a, b)  =>  { _vf := f; _va := a; _vb := b; verifrt.Go(func() { _vf(_va, _vb) }) }
func (r *rewriter) rewriteGo(s *ast.GoStmt) ast.Stmt {
	call := s.Call
	var stmts []ast.Stmt
	fn := call.Fun
	if tv, ok := r.pkg.TypesInfo.Types[call.Fun]; ok && tv.IsType() {
		fatal("%s: go with a conversion is not supported by the instrumenter", r.pos(s))
	}
	if _, isLit := call.Fun.(*ast.FuncLit); !isLit || len(call.Args) > 0 {
		f := r.fresh("f")
		stmts = append(stmts, define(f, call.Fun))
		fn = f
	}
	var args []ast.Expr
	for _, a := range call.Args {
		tv := r.pkg.TypesInfo.Types[a]
		if tv.Value != nil || tv.IsNil() {
			args = append(args, a) // constants and nil have no evaluation time
			continue
		}
		t := r.fresh("a")
		stmts = append(stmts, define(t, a))
		args = append(args, t)
	}
	inner := &ast.CallExpr{Fun: fn, Args: args, Ellipsis: call.Ellipsis}
	if call.Ellipsis != token.NoPos {
		inner.Ellipsis = 1
	}
	lit := &ast.FuncLit{Type: &ast.FuncType{Params: &ast.FieldList{}}, Body: &ast.BlockStmt{List: []ast.Stmt{&ast.ExprStmt{X: inner}}}}
	stmts = append(stmts, &ast.ExprStmt{X: &ast.CallExpr{Fun: r.rt("Go"), Args: []ast.Expr{lit}}})
	return &ast.BlockStmt{List: stmts}
}

func (r *rewriter) rewriteSelect(s *ast.SelectStmt) ast.Stmt {
	var pre []ast.Stmt
	var cases []ast.Expr
	sw := &ast.SwitchStmt{Body: &ast.BlockStmt{}}
	hasDefault := false
	idx := 0
	for _, cl := range s.Body.List {
		cc := cl.(*ast.CommClause)
		if cc.Comm == nil {
			hasDefault = true
			sw.Body.List = append(sw.Body.List, &ast.CaseClause{Body: cc.Body})
			continue
		}
		var native ast.Stmt
		var body []ast.Stmt
		switch cm := cc.Comm.(type) {
		case *ast.SendStmt:
			ch, v := r.fresh("c"), r.fresh("s")
			pre = append(pre, define(ch, cm.Chan), define(v, cm.Value))
			cases = append(cases, &ast.CallExpr{Fun: r.rt("SendCase"), Args: []ast.Expr{ch}})
			native = &ast.SendStmt{Chan: ch, Value: v}
			body = append(body, native, &ast.ExprStmt{X: &ast.CallExpr{Fun: r.rt("SendDone"), Args: []ast.Expr{ch}}})
		case *ast.ExprStmt:
			u, ok := cm.X.(*ast.UnaryExpr)
			if !ok || u.Op != token.ARROW {
				fatal("%s: unsupported select case", r.pos(cm))
			}
			ch := r.fresh("c")
			pre = append(pre, define(ch, u.X))
			cases = append(cases, &ast.CallExpr{Fun: r.rt("RecvCase"), Args: []ast.Expr{ch}})
			nu := &ast.UnaryExpr{Op: token.ARROW, X: ch}
			r.skip[nu] = true
			native = &ast.ExprStmt{X: nu}
			body = append(body, native)
		case *ast.AssignStmt:
			u, ok := cm.Rhs[0].(*ast.UnaryExpr)
			if !ok || u.Op != token.ARROW || len(cm.Rhs) != 1 {
				fatal("%s: unsupported select case", r.pos(cm))
			}
			ch := r.fresh("c")
			pre = append(pre, define(ch, u.X))
			cases = append(cases, &ast.CallExpr{Fun: r.rt("RecvCase"), Args: []ast.Expr{ch}})
			nu := &ast.UnaryExpr{Op: token.ARROW, X: ch}
			r.skip[nu] = true
			na := &ast.AssignStmt{Lhs: cm.Lhs, Tok: cm.Tok, Rhs: []ast.Expr{nu}}
			native = na
			body = append(body, native)
			r.nativeAssign = append(r.nativeAssign, na)
		default:
			fatal("%s: unsupported select case", r.pos(cc))
		}
		body = append(body, cc.Body...)
		sw.Body.List = append(sw.Body.List, &ast.CaseClause{
			List: []ast.Expr{&ast.BasicLit{Kind: token.INT, Value: strconv.Itoa(idx)}},
			Body: body,
		})
		idx++
	}
	hd := "false"
	if hasDefault {
		hd = "true"
	}
	args := append([]ast.Expr{ast.NewIdent(hd)}, cases...)
	sw.Tag = &ast.CallExpr{Fun: r.rt("Select"), Args: args}
	return &ast.BlockStmt{List: append(pre, sw)}
}

// for v := range ch { body }  =>  { _vr := ch; for { v, _vok := verifrt.Recv2(_vr); if !_vok { break }; body } }
func (r *rewriter) rewriteRange(s *ast.RangeStmt) ast.Stmt {
	ch, ok := r.fresh("r"), r.fresh("ok")
	var key ast.Expr = ast.NewIdent("_")
	if s.Key != nil {
		key = s.Key
	}
	recv := &ast.CallExpr{Fun: r.rt("Recv2"), Args: []ast.Expr{ch}}
	var head []ast.Stmt
	if s.Tok == token.ASSIGN {
		head = append(head,
			&ast.DeclStmt{Decl: &ast.GenDecl{Tok: token.VAR, Specs: []ast.Spec{&ast.ValueSpec{Names: []*ast.Ident{ok}, Type: ast.NewIdent("bool")}}}},
			&ast.AssignStmt{Lhs: []ast.Expr{key, ok}, Tok: token.ASSIGN, Rhs: []ast.Expr{recv}})
	} else {
		head = append(head, &ast.AssignStmt{Lhs: []ast.Expr{key, ok}, Tok: token.DEFINE, Rhs: []ast.Expr{recv}})
	}
	head = append(head, &ast.IfStmt{Cond: &ast.UnaryExpr{Op: token.NOT, X: ok}, Body: &ast.BlockStmt{List: []ast.Stmt{&ast.BranchStmt{Tok: token.BREAK}}}})
	loop := &ast.ForStmt{Body: &ast.BlockStmt{List: append(head, s.Body.List...)}}
	return &ast.BlockStmt{List: []ast.Stmt{define(ch, s.X), loop}}
}

// genRegistry emits package gen: reflect types of every exported struct type of
// package model, and of every type whose pointer implements model.Updater.
func genRegistry(p *packages.Package) []byte {
	scope := p.Types.Scope()
	var upd *types.Interface
	if o := scope.Lookup("Updater"); o != nil {
		upd, _ = o.Type().Underlying().(*types.Interface)
	}
	var all, updaters []string
	for _, name := range scope.Names() {
		o, ok := scope.Lookup(name).(*types.TypeName)
		if !ok || !o.Exported() || o.IsAlias() {
			continue
		}
		named, ok := o.Type().(*types.Named)
		if !ok || named.TypeParams().Len() > 0 {
			continue
		}
		if _, isStruct := named.Underlying().(*types.Struct); !isStruct {
			continue
		}
		all = append(all, name)
		if upd != nil && types.Implements(types.NewPointer(named), upd) {
			updaters = append(updaters, name)
		}
	}
	sort.Strings(all)
	sort.Strings(updaters)
	var b bytes.Buffer
	b.WriteString("// Code generated by /verif/tools/instrument from the working tree of package model. DO NOT EDIT.\n\npackage gen\n\nimport (\n\t\"reflect\"\n\n\t\"" + modPath + "/model\"\n)\n\n")
	b.WriteString("// StructTypes lists every exported struct type of package model.\nvar StructTypes = map[string]reflect.Type{\n")
	for _, n := range all {
		fmt.Fprintf(&b, "\t%q: reflect.TypeOf(model.%s{}),\n", n, n)
	}
	b.WriteString("}\n\n// Updaters lists every type whose pointer implements model.Updater.\nvar Updaters = map[string]func() model.Updater{\n")
	for _, n := range updaters {
		fmt.Fprintf(&b, "\t%q: func() model.Updater { return new(model.%s) },\n", n, n)
	}
	b.WriteString("}\n")
	// constants of the enumeration types the harness needs to enumerate
	for _, tn := range []string{"FeatureTypeType", "FunctionType"} {
		fmt.Fprintf(&b, "\n// %sValues lists every constant of type model.%s.\nvar %sValues = []model.%s{\n", tn, tn, tn, tn)
		for _, name := range scope.Names() {
			c, ok := scope.Lookup(name).(*types.Const)
			if !ok || !c.Exported() {
				continue
			}
			if n, ok := c.Type().(*types.Named); ok && n.Obj().Name() == tn && n.Obj().Pkg() == p.Types {
				fmt.Fprintf(&b, "\tmodel.%s,\n", name)
			}
		}
		b.WriteString("}\n")
	}
	return b.Bytes()
}
