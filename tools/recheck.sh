#!/bin/bash
# recheck.sh <seed-dir> [check ...]
# Light re-confirmation of an already confirmed seeded change against the checks as they are now:
# fresh scratch worktree of /repo HEAD, patch applied, library built, the given checks (default: those
# recorded in confirmed.json, else the property's own) run on it in the quick tier. Updates the "checks"
# part of confirmed.json (tests / demonstration results are kept from the full confirmation by seedcheck.sh).
set -u
export GOFLAGS=-mod=mod GOPROXY=off GOSUMDB=off GOTOOLCHAIN=local
D="$(cd "$1" && pwd)"; shift
N=$(basename "$D"); P=${N%-*}
CHECKS="${*:-}"
if [ -z "$CHECKS" ]; then
  CHECKS=$(python3 -c "
import json
try:
    c=json.load(open('$D/confirmed.json')); print(' '.join(x['check'] for x in c['checks']))
except Exception: print('$P')")
fi
[ "$(df --output=avail -BG / | tail -1 | tr -dc 0-9)" -lt 40 ] && go clean -cache
WT="/tmp/wt/recheck-$$"
mkdir -p /tmp/wt
git -C /repo worktree add -q --detach "$WT" HEAD || exit 2
trap 'git -C /repo worktree remove --force "$WT" >/dev/null 2>&1; rm -f /tmp/recheck-$$.res' EXIT
cd "$WT"
git apply "$D/patch.diff" || { echo "$N: patch does not apply"; exit 2; }
go build ./... || { echo "$N: does not build"; exit 2; }
: > /tmp/recheck-$$.res
for c in $CHECKS; do
  out=$(cd /verif && VERIF_REPO="$WT" VERIF_OUT="$WT/.verif-out" bin/check "$c" quick 2>&1); rc=$?
  n=$(echo "$out" | grep -c "^VIOLATION property=$c")
  printf '%s\t%s\t%s\t%s\n' "$c" "$rc" "$n" "$(echo "$out" | grep "^  [^ ]" | head -1 | cut -c3-260)" >> /tmp/recheck-$$.res
  echo "$N check $c: exit=$rc violations=$n $(echo "$out" | grep "^  [^ ]" | head -1 | cut -c3-200)"
  [ "$rc" != 0 ] && [ "$rc" != 1 ] && echo "$out" | tail -15
done
python3 - "$D" "$P" "/tmp/recheck-$$.res" <<'PY'
import json,sys,time,subprocess
d,p,resf=sys.argv[1:4]
rows=[l.rstrip("\n").split("\t") for l in open(resf)]
try: c=json.load(open(d+"/confirmed.json"))
except Exception: c={"property":p}
c["checks"]=[{"check":r[0],"exit":int(r[1]),"violation_lines":int(r[2]),"first_finding":r[3] if len(r)>3 else ""} for r in rows]
c["checks_rerun_at"]=time.strftime("%Y-%m-%dT%H:%M:%SZ",time.gmtime())
c["checks_rerun_repo_head"]=subprocess.run(["git","-C","/repo","rev-parse","--short","HEAD"],capture_output=True,text=True).stdout.strip()
json.dump(c,open(d+"/confirmed.json","w"),indent=1)
PY
