package spine

// Injected by /verif through the build overlay only; never part of the repository.
// Read-only dumps of private state for canonical state keys and bounded-memory
// oracles, and a reset of the process-global event bus between executions.

import (
	"fmt"
	"reflect"
	"sort"
	"strings"

	"github.com/enbility/spine-go/api"
	"github.com/enbility/spine-go/model"
)

// VerifResetGlobals gives every execution a fresh event bus.
//
//go:norace
func VerifResetGlobals() { Events = events{} }

// VerifSubscribeCore registers a core-level handler (as DeviceLocal does).
func VerifSubscribeCore(h api.EventHandlerInterface) { _ = Events.subscribe(api.EventHandlerLevelCore, h) }

// VerifUnsubscribeCore removes a core-level handler.
func VerifUnsubscribeCore(h api.EventHandlerInterface) { _ = Events.unsubscribe(api.EventHandlerLevelCore, h) }

//go:norace
func VerifEventHandlerCount() int { return len(Events.handlers) }

// VerifReqCache returns the keys (message counters) of the unanswered-request cache.
//
//go:norace
func VerifReqCache(s api.SenderInterface) []uint64 {
	c, ok := s.(*Sender)
	if !ok {
		return nil
	}
	var out []uint64
	for k := range c.reqMsgCache {
		out = append(out, uint64(k))
	}
	sort.Slice(out, func(i, j int) bool { return out[i] < out[j] })
	return out
}

//go:norace
func VerifMsgNum(s api.SenderInterface) uint64 {
	c, ok := s.(*Sender)
	if !ok {
		return 0
	}
	return c.msgNum
}

// VerifFeatureState dumps the private bookkeeping of a local feature.
//
//go:norace
func VerifFeatureState(f api.FeatureLocalInterface) string {
	var r *FeatureLocal
	switch x := f.(type) {
	case *FeatureLocal:
		r = x
	case *NodeManagement:
		r = x.FeatureLocal
	default:
		return "?"
	}
	var pend, tally, cbs, subs, binds []string
	for ski, m := range r.pendingWriteApprovals {
		for c := range m {
			pend = append(pend, fmt.Sprintf("%s/%d", ski, c))
		}
	}
	for ski, m := range r.writeApprovalReceived {
		for c, n := range m {
			tally = append(tally, fmt.Sprintf("%s/%d=%d", ski, c, n))
		}
	}
	for c, l := range r.responseMsgCallback {
		cbs = append(cbs, fmt.Sprintf("%d:%d", c, len(l)))
	}
	for _, a := range r.subscriptions {
		subs = append(subs, verifAddr(a))
	}
	for _, a := range r.bindings {
		binds = append(binds, verifAddr(a))
	}
	sort.Strings(pend)
	sort.Strings(tally)
	sort.Strings(cbs)
	sort.Strings(subs)
	sort.Strings(binds)
	return fmt.Sprintf("pend=%v tally=%v cbs=%v rcbs=%d subs=%v binds=%v", pend, tally, cbs, len(r.resultCallbacks), subs, binds)
}

func verifAddr(a *model.FeatureAddressType) string {
	if a == nil {
		return "<nil>"
	}
	d := "-"
	if a.Device != nil {
		d = string(*a.Device)
	}
	f := "-"
	if a.Feature != nil {
		f = fmt.Sprint(uint(*a.Feature))
	}
	return fmt.Sprintf("%s%v/%s", d, a.Entity, f)
}

// VerifFeatureShape renders the key structure of every map-typed private field of a local feature (two levels:
// which connections have an entry, and which keys that entry holds — an empty map is not the same as no map).
// It is generic on purpose: bookkeeping a change adds is part of it without this file knowing the field.
//
//go:norace
func VerifFeatureShape(f api.FeatureLocalInterface) string {
	var r *FeatureLocal
	switch x := f.(type) {
	case *FeatureLocal:
		r = x
	case *NodeManagement:
		r = x.FeatureLocal
	default:
		return "?"
	}
	v := reflect.ValueOf(r).Elem()
	var out []string
	for i := 0; i < v.NumField(); i++ {
		fv := v.Field(i)
		if fv.Kind() != reflect.Map {
			continue
		}
		name := v.Type().Field(i).Name
		if name == "operations" || name == "functionDataMap" {
			continue
		}
		out = append(out, name+"="+verifMapShape(fv, 2))
	}
	return strings.Join(out, " ")
}

func verifMapShape(m reflect.Value, depth int) string {
	if m.IsNil() {
		return "nil"
	}
	var ks []string
	for _, k := range m.MapKeys() {
		s := fmt.Sprint(k)
		if e := m.MapIndex(k); depth > 1 && e.Kind() == reflect.Map {
			s += verifMapShape(e, depth-1)
		}
		ks = append(ks, s)
	}
	if depth == 1 || m.Type().Key().Kind() != reflect.String {
		// inner level: message counters and the like — how many, not which (absolute counters depend on the length of the history)
		return fmt.Sprintf("{%d}", len(ks))
	}
	sort.Strings(ks)
	return "{" + strings.Join(ks, ",") + "}"
}

// VerifRegistryOrder renders the ids of the subscription and binding entries in the order the registries hold them,
// as ranks (for a counter that only grows this is always 0,1,2,...: it adds nothing to a state key).
//
//go:norace
func VerifRegistryOrder(l api.DeviceLocalInterface) string {
	rank := func(ids []uint64) string {
		s := append([]uint64{}, ids...)
		sort.Slice(s, func(i, j int) bool { return s[i] < s[j] })
		r := map[uint64]int{}
		for i, id := range s {
			if _, ok := r[id]; !ok {
				r[id] = i
			}
		}
		out := ""
		for _, id := range ids {
			out += fmt.Sprint(r[id], ",")
		}
		return out
	}
	var si, bi []uint64
	if sm, ok := l.SubscriptionManager().(*SubscriptionManager); ok {
		for _, e := range sm.subscriptionEntries {
			si = append(si, e.Id)
		}
	}
	if bm, ok := l.BindingManager().(*BindingManager); ok {
		for _, e := range bm.bindingEntries {
			bi = append(bi, e.Id)
		}
	}
	return "s[" + rank(si) + "] b[" + rank(bi) + "]"
}

// VerifRegistryIds renders the absolute ids of the subscription and binding entries in registry order (for drivers
// that bound the depth instead of closing the state space).
//
//go:norace
func VerifRegistryIds(l api.DeviceLocalInterface) string {
	out := "s"
	if sm, ok := l.SubscriptionManager().(*SubscriptionManager); ok {
		for _, e := range sm.subscriptionEntries {
			out += fmt.Sprint(",", e.Id, ":", e.ClientFeature.Device().Ski(), verifAddr(e.ClientFeature.Address()), ">", verifAddr(e.ServerFeature.Address()))
		}
	}
	out += " b"
	if bm, ok := l.BindingManager().(*BindingManager); ok {
		for _, e := range bm.bindingEntries {
			out += fmt.Sprint(",", e.Id, ":", e.ClientFeature.Device().Ski(), verifAddr(e.ClientFeature.Address()), ">", verifAddr(e.ServerFeature.Address()))
		}
	}
	// every unsigned integer field of the two managers (the counters the ids come from, whatever they are called)
	for _, m := range []any{l.SubscriptionManager(), l.BindingManager()} {
		v := reflect.ValueOf(m)
		if v.Kind() != reflect.Ptr || v.IsNil() || v.Elem().Kind() != reflect.Struct {
			continue
		}
		for i := 0; i < v.Elem().NumField(); i++ {
			if f := v.Elem().Field(i); f.Kind() == reflect.Uint64 || f.Kind() == reflect.Uint {
				out += fmt.Sprintf(" %s=%d", v.Elem().Type().Field(i).Name, f.Uint())
			}
		}
	}
	return out
}
