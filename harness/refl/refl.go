// Package refl generates data-model values reflectively (structured, not
// random) and compares them modulo the equivalences the properties allow.
package refl

import (
	"fmt"
	"reflect"
	"strings"
	"time"

	"github.com/enbility/spine-go/model"
)

var timePeriodT = reflect.TypeOf(model.TimePeriodType{})

// Fill returns a fully populated value of type t, nested structs down to depth.
func Fill(t reflect.Type, depth, seed int) reflect.Value {
	v := reflect.New(t).Elem()
	fill(v, depth, seed)
	return v
}

func fill(v reflect.Value, depth, seed int) {
	t := v.Type()
	if t == timePeriodT {
		tp := model.TimePeriodType{}
		if seed%2 == 0 {
			tp.EndTime = model.NewAbsoluteOrRelativeTimeType("PT2H")
		} else {
			tp.StartTime = model.NewAbsoluteOrRelativeTimeType("2024-03-01T12:00:00Z")
			tp.EndTime = model.NewAbsoluteOrRelativeTimeType("2024-03-01T13:00:00Z")
		}
		v.Set(reflect.ValueOf(tp))
		return
	}
	switch t.Kind() {
	case reflect.Ptr:
		p := reflect.New(t.Elem())
		fill(p.Elem(), depth, seed)
		v.Set(p)
	case reflect.Struct:
		if depth <= 0 {
			return
		}
		for i := 0; i < t.NumField(); i++ {
			if !v.Field(i).CanSet() {
				continue
			}
			fill(v.Field(i), depth-1, seed+i)
		}
	case reflect.Slice:
		n := 1 + seed%2
		s := reflect.MakeSlice(t, n, n)
		for i := 0; i < n; i++ {
			fill(s.Index(i), depth, seed+i+1)
		}
		v.Set(s)
	case reflect.String:
		v.SetString(fmt.Sprintf("v%d", seed%7))
	case reflect.Uint, reflect.Uint8, reflect.Uint16, reflect.Uint32, reflect.Uint64:
		v.SetUint(uint64(1 + seed%5))
	case reflect.Int, reflect.Int8, reflect.Int16, reflect.Int32, reflect.Int64:
		v.SetInt(int64(-1 - seed%5))
	case reflect.Bool:
		v.SetBool(true)
	case reflect.Float32, reflect.Float64:
		v.SetFloat(1.5 + float64(seed%3))
	}
}

// Variants: the zero value, every single field set, all fields set (for structs).
func Variants(t reflect.Type, depth int) []reflect.Value {
	out := []reflect.Value{reflect.New(t).Elem()}
	if t.Kind() != reflect.Struct || t == timePeriodT {
		return append(out, Fill(t, depth, 0), Fill(t, depth, 1))
	}
	for i := 0; i < t.NumField(); i++ {
		v := reflect.New(t).Elem()
		if !v.Field(i).CanSet() {
			continue
		}
		fill(v.Field(i), depth-1, i)
		out = append(out, v)
		// scalar fields additionally with the boundary values of their kind (zero, empty, false, smallest,
		// largest, and the first integers a float64 cannot represent)
		ft := t.Field(i).Type
		if ft.Kind() == reflect.Ptr {
			for _, x := range extremes(ft.Elem()) {
				e := reflect.New(t).Elem()
				p := reflect.New(ft.Elem())
				p.Elem().Set(x)
				e.Field(i).Set(p)
				out = append(out, e)
			}
		}
		// lists additionally with length 0 and 2
		if v.Field(i).Kind() == reflect.Slice {
			e := reflect.New(t).Elem()
			e.Field(i).Set(reflect.MakeSlice(t.Field(i).Type, 0, 0))
			out = append(out, e)
			l := reflect.New(t).Elem()
			fill(l.Field(i), depth-1, i+1)
			out = append(out, l)
		}
	}
	return append(out, Fill(t, depth, 0))
}

func extremes(t reflect.Type) []reflect.Value {
	var out []reflect.Value
	mk := func(set func(v reflect.Value)) {
		v := reflect.New(t).Elem()
		set(v)
		out = append(out, v)
	}
	switch t.Kind() {
	case reflect.Int, reflect.Int8, reflect.Int16, reflect.Int32, reflect.Int64:
		bits := t.Bits()
		max := int64(1)<<(bits-1) - 1
		for _, x := range []int64{0, 1, max, -max - 1, max - 1, 1<<53 + 1, -(1<<53 + 1), 999999999999999999} {
			if x >= -max-1 && x <= max {
				x := x
				mk(func(v reflect.Value) { v.SetInt(x) })
			}
		}
	case reflect.Uint, reflect.Uint8, reflect.Uint16, reflect.Uint32, reflect.Uint64:
		bits := t.Bits()
		max := ^uint64(0) >> (64 - bits)
		for _, x := range []uint64{0, max, max - 1, 1<<53 + 1} {
			if x <= max {
				x := x
				mk(func(v reflect.Value) { v.SetUint(x) })
			}
		}
	case reflect.Bool:
		mk(func(v reflect.Value) { v.SetBool(false) })
	case reflect.String:
		mk(func(v reflect.Value) { v.SetString("") })
	case reflect.Float32, reflect.Float64:
		for _, x := range []float64{0, -0.5, 1e15, 1e-7} {
			x := x
			mk(func(v reflect.Value) { v.SetFloat(x) })
		}
	}
	return out
}

// EqualModulo compares got (decoded) with want (original): absent and empty
// lists are equal; a relative end time of a time period without start time is
// read back as the absolute time now+duration.
func EqualModulo(got, want reflect.Value, now time.Time) string {
	return eq(got, want, now, "")
}

func eq(g, w reflect.Value, now time.Time, path string) string {
	if g.Type() != w.Type() {
		return path + ": type differs"
	}
	t := w.Type()
	if t == timePeriodT {
		gt, wt := g.Interface().(model.TimePeriodType), w.Interface().(model.TimePeriodType)
		if !reflect.DeepEqual(gt.StartTime, wt.StartTime) {
			return path + ".StartTime differs"
		}
		if wt.StartTime == nil && wt.EndTime != nil && wt.EndTime.IsRelativeTime() {
			d, _ := wt.EndTime.GetTimeDuration()
			if gt.EndTime == nil {
				return path + ".EndTime lost"
			}
			abs, err := gt.EndTime.GetTime()
			if err != nil || gt.EndTime.IsRelativeTime() || !abs.Equal(now.Add(d)) {
				return fmt.Sprintf("%s.EndTime: relative end time %s read back as %s, expected the absolute time %s", path, *wt.EndTime, *gt.EndTime, now.Add(d).Format(time.RFC3339))
			}
			return ""
		}
		if !reflect.DeepEqual(gt.EndTime, wt.EndTime) {
			return path + ".EndTime differs"
		}
		return ""
	}
	switch t.Kind() {
	case reflect.Ptr:
		if g.IsNil() != w.IsNil() {
			return fmt.Sprintf("%s: set=%v, expected set=%v", path, !g.IsNil(), !w.IsNil())
		}
		if w.IsNil() {
			return ""
		}
		return eq(g.Elem(), w.Elem(), now, path)
	case reflect.Struct:
		for i := 0; i < t.NumField(); i++ {
			if t.Field(i).PkgPath != "" {
				continue
			}
			if s := eq(g.Field(i), w.Field(i), now, path+"."+t.Field(i).Name); s != "" {
				return s
			}
		}
		return ""
	case reflect.Slice:
		if g.Len() != w.Len() {
			return fmt.Sprintf("%s: length %d, expected %d", path, g.Len(), w.Len())
		}
		for i := 0; i < w.Len(); i++ {
			if s := eq(g.Index(i), w.Index(i), now, fmt.Sprintf("%s[%d]", path, i)); s != "" {
				return s
			}
		}
		return ""
	default:
		if !reflect.DeepEqual(g.Interface(), w.Interface()) {
			return fmt.Sprintf("%s: %v, expected %v", path, g.Interface(), w.Interface())
		}
		return ""
	}
}

// Title upper-cases the first letter.
func Title(s string) string {
	if s == "" {
		return s
	}
	return strings.ToUpper(s[:1]) + s[1:]
}

// Clone returns a structural deep copy of v made by reflection only (no encoding round trip, no method of the
// copied types is called), so that it can serve as a reference even if encoding a value changes the value.
func Clone(v any) any {
	if v == nil {
		return nil
	}
	return cloneV(reflect.ValueOf(v)).Interface()
}

func cloneV(v reflect.Value) reflect.Value {
	switch v.Kind() {
	case reflect.Ptr:
		if v.IsNil() {
			return v
		}
		p := reflect.New(v.Type().Elem())
		p.Elem().Set(cloneV(v.Elem()))
		return p
	case reflect.Interface:
		if v.IsNil() {
			return v
		}
		n := reflect.New(v.Type()).Elem()
		n.Set(cloneV(v.Elem()))
		return n
	case reflect.Struct:
		n := reflect.New(v.Type()).Elem()
		n.Set(v) // unexported fields are copied shallowly
		for i := 0; i < v.NumField(); i++ {
			if n.Field(i).CanSet() {
				n.Field(i).Set(cloneV(v.Field(i)))
			}
		}
		return n
	case reflect.Slice:
		if v.IsNil() {
			return v
		}
		n := reflect.MakeSlice(v.Type(), v.Len(), v.Len())
		for i := 0; i < v.Len(); i++ {
			n.Index(i).Set(cloneV(v.Index(i)))
		}
		return n
	case reflect.Array:
		n := reflect.New(v.Type()).Elem()
		for i := 0; i < v.Len(); i++ {
			n.Index(i).Set(cloneV(v.Index(i)))
		}
		return n
	case reflect.Map:
		if v.IsNil() {
			return v
		}
		n := reflect.MakeMapWithSize(v.Type(), v.Len())
		for _, k := range v.MapKeys() {
			n.SetMapIndex(cloneV(k), cloneV(v.MapIndex(k)))
		}
		return n
	}
	return v
}

// Plain renders v as nested maps / slices / scalars (pointers followed) for printing without any encoder.
func Plain(v any) any {
	if v == nil {
		return nil
	}
	return plainV(reflect.ValueOf(v))
}

func plainV(v reflect.Value) any {
	switch v.Kind() {
	case reflect.Ptr, reflect.Interface:
		if v.IsNil() {
			return nil
		}
		return plainV(v.Elem())
	case reflect.Struct:
		m := map[string]any{}
		for i := 0; i < v.NumField(); i++ {
			if v.Type().Field(i).IsExported() {
				if x := plainV(v.Field(i)); x != nil {
					m[v.Type().Field(i).Name] = x
				}
			}
		}
		return m
	case reflect.Slice, reflect.Array:
		if v.Kind() == reflect.Slice && v.IsNil() {
			return nil
		}
		var l []any
		for i := 0; i < v.Len(); i++ {
			l = append(l, plainV(v.Index(i)))
		}
		return l
	case reflect.String:
		return v.String()
	}
	if v.CanInterface() {
		return v.Interface()
	}
	return fmt.Sprint(v)
}
