package engine

import (
	"os"
	"path/filepath"
	"sort"
	"strings"
)

// RaceReport is one de-duplicated data-race report of the race detector.
type RaceReport struct {
	Pair  [2]string // innermost spine-go function of each access ("app:<fn>" for harness-level application reads), sorted
	Kinds [2]string
	Text  string
}

func (r RaceReport) Key() string { return r.Pair[0] + " <-> " + r.Pair[1] }

const modPrefix = "github.com/enbility/spine-go/"

// frameOwner returns the key function of one access stack: the first frame that
// belongs to the spine-go module. Frames of the runtime (internal/verifrt) make
// the access irrelevant (""); harness frames count as the application.
func frameOwner(stack []string) string {
	for _, fn := range stack {
		if !strings.HasPrefix(fn, modPrefix) {
			continue
		}
		rest := strings.TrimPrefix(fn, modPrefix)
		// the shims standing in for sync and sync/atomic perform the program's own lock and atomic operations: the
		// access belongs to their caller (a lock word read by reflection races with the lock operation itself)
		if strings.HasPrefix(rest, "internal/verifrt/vsync") || strings.HasPrefix(rest, "internal/verifrt/vatomic") {
			continue
		}
		if strings.HasPrefix(rest, "internal/verifrt") {
			return ""
		}
		// strip closure suffixes and arguments
		if i := strings.Index(rest, "("); i > 0 && !strings.HasPrefix(rest[i:], "(*") {
			rest = rest[:i]
		}
		for strings.HasSuffix(rest, "()") {
			rest = strings.TrimSuffix(rest, "()")
		}
		if strings.HasPrefix(rest, "internal/verifh") {
			return "app:" + rest[strings.LastIndex(rest, "/")+1:]
		}
		// drop generic instantiation noise and .funcN suffixes
		if i := strings.Index(rest, "[...]"); i >= 0 {
			rest = rest[:i] + rest[i+5:]
		}
		for {
			i := strings.LastIndex(rest, ".func")
			if i < 0 {
				break
			}
			rest = rest[:i]
		}
		return rest
	}
	return ""
}

// ParseRaceLogs reads every race.* file in dir.
func ParseRaceLogs(dir string) []RaceReport {
	files, _ := filepath.Glob(filepath.Join(dir, "race.*"))
	seen := map[string]bool{}
	var out []RaceReport
	for _, f := range files {
		b, err := os.ReadFile(f)
		if err != nil {
			continue
		}
		for _, blk := range strings.Split(string(b), "WARNING: DATA RACE") {
			if !strings.Contains(blk, " by ") {
				continue
			}
			lines := strings.Split(blk, "\n")
			var stacks [][]string
			var kinds []string
			var cur []string
			in := false
			for _, l := range lines {
				t := strings.TrimSpace(l)
				switch {
				case (strings.HasPrefix(t, "Read at") || strings.HasPrefix(t, "Write at") || strings.HasPrefix(t, "Previous read at") ||
					strings.HasPrefix(t, "Previous write at") || strings.HasPrefix(t, "Atomic") || strings.HasPrefix(t, "Previous atomic")) && strings.Contains(t, " by "):
					if in {
						stacks = append(stacks, cur)
					}
					cur, in = nil, true
					k := "read"
					if strings.Contains(strings.ToLower(t), "write") {
						k = "write"
					}
					kinds = append(kinds, k)
				case strings.HasPrefix(t, "Goroutine ") || strings.HasPrefix(t, "===="):
					if in {
						stacks = append(stacks, cur)
					}
					in = false
				case in && t != "" && !strings.HasPrefix(t, "/") && !strings.Contains(t, ".go:") && !strings.HasPrefix(t, "<"):
					cur = append(cur, t)
				}
			}
			if in {
				stacks = append(stacks, cur)
			}
			if len(stacks) < 2 {
				continue
			}
			a, b2 := frameOwner(stacks[0]), frameOwner(stacks[1])
			if a == "" || b2 == "" {
				continue
			}
			if strings.HasPrefix(a, "app:") && strings.HasPrefix(b2, "app:") {
				continue
			}
			r := RaceReport{Pair: [2]string{a, b2}, Kinds: [2]string{kinds[0], kinds[1]}}
			if r.Pair[0] > r.Pair[1] {
				r.Pair[0], r.Pair[1] = r.Pair[1], r.Pair[0]
				r.Kinds[0], r.Kinds[1] = r.Kinds[1], r.Kinds[0]
			}
			if seen[r.Key()] {
				continue
			}
			seen[r.Key()] = true
			if len(blk) > 5000 {
				blk = blk[:5000]
			}
			r.Text = blk
			out = append(out, r)
		}
	}
	sort.Slice(out, func(i, j int) bool { return out[i].Key() < out[j].Key() })
	return out
}
