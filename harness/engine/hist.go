package engine

import (
	"encoding/json"
	"fmt"
	"os"
	"sort"
	"strings"
	"time"

	rt "github.com/enbility/spine-go/internal/verifrt"
)

// HStep is the result of replaying a history on a fresh world and applying one more operation.
type HStep struct {
	Key        string   // canonical key of the state reached (property-relevant state only)
	Violations []string // oracle failures of the last operation ("clause | details")
	Cut        bool     // implementation and reference diverged in state: do not expand below
	Digest     string   // canonical observation of the last operation (distinct-outcome counting)
	Effect     bool     // the reference model says the operation was accepted / had an effect
}

// HDriver is one closed driver for the explicit-state history explorer (engine H).
type HDriver struct {
	Name     string
	Alphabet []string // operation ids, simplest first
	// Ops, when set, restricts the alphabet after a given history.
	Ops func(hist []string) []string
	// Step must build a fresh world, replay hist (without judging) and apply op
	// (judging it). It runs as the driver thread of a controlled execution.
	Step func(hist []string, op string) HStep
	// Prelude histories to start from in addition to the empty one.
	Starts [][]string
}

type hJob struct {
	Driver string
	Hist   []string
	Ops    []string
}

type hRes struct {
	Steps []HStep
	Errs  []string
}

// ExecStep runs one Step under the controlled scheduler with the default schedule.
func ExecStep(d *HDriver, hist []string, op string) (HStep, []string) {
	var st HStep
	res := rt.Execute(rt.Config{}, func() { st = d.Step(hist, op) })
	var errs []string
	for _, p := range res.Panics {
		st.Violations = append(st.Violations, fmt.Sprintf("panic in %s | %s", p.Frame, p.Value))
	}
	if len(res.Deadlock) > 0 || res.Stuck {
		st.Violations = append(st.Violations, fmt.Sprintf("deadlock | %v", res.Deadlock))
	}
	if res.Horizon {
		st.Violations = append(st.Violations, "horizon: operation did not finish")
	}
	if len(res.Panics) > 0 && st.Key == "" {
		st.Cut = true
		st.Key = "PANIC:" + strings.Join(append(append([]string{}, hist...), op), ";")
	}
	return st, errs
}

func WorkHistories(ds []*HDriver, job json.RawMessage) json.RawMessage {
	var j hJob
	if err := json.Unmarshal(job, &j); err != nil {
		panic(err)
	}
	var d *HDriver
	for _, x := range ds {
		if x.Name == j.Driver {
			d = x
		}
	}
	if d == nil {
		panic("unknown driver " + j.Driver)
	}
	var r hRes
	for _, op := range j.Ops {
		st, errs := ExecStep(d, j.Hist, op)
		r.Steps = append(r.Steps, st)
		r.Errs = append(r.Errs, errs...)
	}
	b, _ := json.Marshal(r)
	return b
}

// HStats summarises one BFS.
type HStats struct {
	States, Transitions, MaxDepth, Cut, Effects int
	// merge audit: states re-reached by a second history are expanded from that history as well and their
	// successors compared with those of the first history (a check of the canonical state key itself)
	AuditedStates, AuditTransitions, AuditMismatches int
	AuditSamples                                     []string
	Closure                                          bool
	BudgetHit                                        bool
	Outcomes                                         map[string]int
	Samples                                          []string
	PerDepth                                         []int
}

// RunHistories explores d breadth-first to closure or maxDepth.
func RunHistories(c *Ctx, d *HDriver, maxDepth int, rep *Report) *HStats {
	pool := c.PoolFor(false)
	defer pool.Close()
	st := &HStats{Outcomes: map[string]int{}}
	if only := os.Getenv("VERIF_ONLY"); only != "" && !strings.Contains(d.Name, only) {
		st.Closure = true
		st.Samples = []string{"(skipped by VERIF_ONLY)"}
		return st
	}
	seen := map[string]bool{}
	nPerClause := map[string]int{}
	type succInfo struct {
		key, digest string
		viol        bool
	}
	succOf := map[string]map[string]succInfo{} // state key -> op -> successor reached from the first history
	altHist := map[string][]string{}           // state key -> a second, different history reaching it
	var altOrder []string
	keyOfHist := map[string]string{} // joined history -> key of the state it reaches (expanded nodes only)
	type node struct{ hist []string }
	var frontier []node
	// initial states
	starts := append([][]string{{}}, d.Starts...)
	for _, h := range starts {
		s0, _ := ExecStep(d, h, "")
		if !seen[s0.Key] {
			seen[s0.Key] = true
			frontier = append(frontier, node{hist: h})
			keyOfHist[strings.Join(h, ";")] = s0.Key
		}
	}
	depth := 0
	for len(frontier) > 0 && depth < maxDepth {
		if time.Now().After(c.Deadline()) {
			st.BudgetHit = true
			break
		}
		depth++
		var jobs []json.RawMessage
		var meta []hJob
		for _, n := range frontier {
			ops := d.Alphabet
			if d.Ops != nil {
				ops = d.Ops(n.hist)
			}
			// split large alphabets so that the pool stays busy on small frontiers
			chunk := len(ops)
			if len(frontier) < 4*c.Workers {
				chunk = (len(ops)*len(frontier) + 4*c.Workers - 1) / (4 * c.Workers)
				if chunk < 1 {
					chunk = 1
				}
			}
			for i := 0; i < len(ops); i += chunk {
				e := i + chunk
				if e > len(ops) {
					e = len(ops)
				}
				j := hJob{Driver: d.Name, Hist: n.hist, Ops: ops[i:e]}
				b, _ := json.Marshal(j)
				jobs = append(jobs, b)
				meta = append(meta, j)
			}
		}
		type succ struct {
			hist []string
			key  string
		}
		results := make([]*hRes, len(jobs))
		crashes := pool.Map(jobs, func(i int, res json.RawMessage) {
			var r hRes
			if err := json.Unmarshal(res, &r); err != nil {
				rep.EngineErr = append(rep.EngineErr, d.Name+": bad worker result")
				return
			}
			results[i] = &r
		})
		for _, cr := range crashes {
			if strings.Contains(cr.Stderr, "VERIFRT-WEDGE") {
				rep.Add(d.Name+": wedge", "an operation ran without reaching a scheduling point for 120 s\n"+tail(cr.Stderr, 3000), map[string]any{"driver": d.Name, "job": string(jobs[cr.Job])})
			} else {
				rep.EngineErr = append(rep.EngineErr, fmt.Sprintf("%s: worker died: %s\n%s", d.Name, cr.Err, tail(cr.Stderr, 2000)))
			}
		}
		var next []node
		// deterministic order: jobs in order, ops in order
		for i, r := range results {
			if r == nil {
				continue
			}
			for k, s := range r.Steps {
				op := meta[i].Ops[k]
				st.Transitions++
				st.Outcomes[s.Digest]++
				if s.Effect {
					st.Effects++
				}
				h := append(append([]string{}, meta[i].Hist...), op)
				if pk, ok := keyOfHist[strings.Join(meta[i].Hist, ";")]; ok {
					if succOf[pk] == nil {
						succOf[pk] = map[string]succInfo{}
					}
					succOf[pk][op] = succInfo{s.Key, s.Digest, len(s.Violations) > 0}
				}
				for _, v := range s.Violations {
					// a finding is identified by driver, violated clause and the failing history;
					// only the first few histories per clause are kept as separate findings
					ck := d.Name + ": " + clause(v)
					if strings.HasPrefix(v, "!") {
						// the oracle has identified the failing input itself (operation and
						// what it met): the clause is the specific key, independent of the prefix
						rep.Add(d.Name+": "+clause(v)[1:], v[1:]+"\nhistory: "+strings.Join(h, " ; "), map[string]any{"driver": d.Name, "history": h})
						continue
					}
					// histories listed for a recorded finding never count against the cap: they cannot crowd out a new one
					fk := ck + " @ " + CompactHistory(h)
					if !c.IsKnownKey(fk) {
						nPerClause[ck]++
					}
					if nPerClause[ck] <= 400 {
						rep.Add(fk, v+"\nhistory: "+strings.Join(h, " ; "), map[string]any{"driver": d.Name, "history": h})
					}
				}
				if s.Cut {
					st.Cut++
					continue
				}
				if !seen[s.Key] {
					seen[s.Key] = true
					next = append(next, node{hist: h})
					keyOfHist[strings.Join(h, ";")] = s.Key
					if len(st.Samples) < 5 && depth >= 2 {
						st.Samples = append(st.Samples, strings.Join(h, " ; "))
					}
				} else if _, ok := altHist[s.Key]; !ok && len(s.Violations) == 0 && s.Effect {
					// reached again by a different history (only transitions that changed something: a history
					// that merely appends a rejected operation is no independent second way)
					altHist[s.Key] = h
					altOrder = append(altOrder, s.Key)
				}
			}
		}
		st.PerDepth = append(st.PerDepth, len(next))
		frontier = next
		st.MaxDepth = depth
	}
	// ---- merge audit
	auditCap := 150
	if c.Thorough {
		auditCap = 1500
	}
	var ajobs []json.RawMessage
	var ameta []hJob
	var akeys []string
	for _, k := range altOrder {
		if len(akeys) >= auditCap || time.Now().After(c.Deadline()) {
			break
		}
		so := succOf[k]
		if len(so) == 0 {
			continue // the state was never expanded (depth bound, cut)
		}
		var ops []string
		for _, op := range d.Alphabet {
			if _, ok := so[op]; ok {
				ops = append(ops, op)
			}
		}
		j := hJob{Driver: d.Name, Hist: altHist[k], Ops: ops}
		b, _ := json.Marshal(j)
		ajobs = append(ajobs, b)
		ameta = append(ameta, j)
		akeys = append(akeys, k)
	}
	if len(ajobs) > 0 {
		ares := make([]*hRes, len(ajobs))
		pool.Map(ajobs, func(i int, res json.RawMessage) {
			var r hRes
			if json.Unmarshal(res, &r) == nil {
				ares[i] = &r
			}
		})
		for i, r := range ares {
			if r == nil {
				continue
			}
			st.AuditedStates++
			for k, s := range r.Steps {
				op := ameta[i].Ops[k]
				st.AuditTransitions++
				h := append(append([]string{}, ameta[i].Hist...), op)
				// the audit steps are judged executions of the real code like any other
				for _, v := range s.Violations {
					ck := d.Name + ": " + clause(v)
					if strings.HasPrefix(v, "!") {
						rep.Add(d.Name+": "+clause(v)[1:], v[1:]+"\nhistory: "+strings.Join(h, " ; "), map[string]any{"driver": d.Name, "history": h})
						continue
					}
					// histories listed for a recorded finding never count against the cap: they cannot crowd out a new one
					fk := ck + " @ " + CompactHistory(h)
					if !c.IsKnownKey(fk) {
						nPerClause[ck]++
					}
					if nPerClause[ck] <= 400 {
						rep.Add(fk, v+"\nhistory: "+strings.Join(h, " ; "), map[string]any{"driver": d.Name, "history": h})
					}
				}
				want := succOf[akeys[i]][op]
				if len(s.Violations) == 0 && !want.viol && !s.Cut && (s.Key != want.key || s.Digest != want.digest) {
					st.AuditMismatches++
					if len(st.AuditSamples) < 5 {
						what := "state"
						if s.Key == want.key {
							what = "observation " + s.Digest + " vs " + want.digest
						}
						st.AuditSamples = append(st.AuditSamples, fmt.Sprintf("%s after [%s] differs in %s from the successor of the first history reaching the same state key", op, strings.Join(ameta[i].Hist, " ; "), what))
					}
				}
			}
		}
		if st.AuditMismatches > 0 {
			rep.EngineNote = append(rep.EngineNote, fmt.Sprintf("%s: merge audit: %d of %d transitions from a second history disagree with the first history's successors — the canonical state key merges states with different futures (search below merged states is incomplete); e.g. %s", d.Name, st.AuditMismatches, st.AuditTransitions, strings.Join(st.AuditSamples, " || ")))
		}
	}
	st.States = len(seen)
	st.Closure = len(frontier) == 0 && !st.BudgetHit
	if len(st.Samples) == 0 {
		st.Samples = []string{"(initial state only)"}
	}
	return st
}

// AddHCoverage merges the BFS statistics into the report's coverage.
func AddHCoverage(rep *Report, name string, st *HStats, alphabet int) {
	cov := rep.Coverage
	add := func(k string, v int) {
		if x, ok := cov[k].(int); ok {
			cov[k] = x + v
		} else {
			cov[k] = v
		}
	}
	add("states", st.States)
	add("transitions", st.Transitions)
	add("traces_validated_against_impl", st.Transitions)
	var outs []string
	for k := range st.Outcomes {
		outs = append(outs, k)
	}
	sort.Strings(outs)
	if len(outs) > 4 {
		outs = outs[:4]
	}
	h := map[string]any{"states": st.States, "transitions": st.Transitions, "max_depth": st.MaxDepth, "closure_reached": st.Closure,
		"cut_transitions": st.Cut, "alphabet": alphabet, "transitions_with_effect": st.Effects, "distinct_outcomes": len(st.Outcomes),
		"new_states_per_depth": st.PerDepth, "time_budget_hit": st.BudgetHit, "sample_histories": st.Samples, "sample_outcomes": outs,
		"merge_audit": map[string]any{"states_reexpanded_from_a_second_history": st.AuditedStates, "transitions": st.AuditTransitions, "mismatches": st.AuditMismatches, "examples": st.AuditSamples}}
	add("traces_validated_against_impl", st.AuditTransitions)
	hs, _ := cov["histories"].(map[string]any)
	if hs == nil {
		hs = map[string]any{}
	}
	hs[name] = h
	cov["histories"] = hs
	smp, _ := cov["samples"].([]any)
	for _, s := range st.Samples {
		if len(smp) < 12 {
			smp = append(smp, map[string]any{"driver": name, "history": s})
		}
	}
	cov["samples"] = smp
	if st.BudgetHit {
		cov["time_budget_hit"] = true
		cov["exhaustive"] = false
	}
}

// CompactHistory renders a history with run-length encoding of repeated operations.
func CompactHistory(h []string) string {
	var parts []string
	for i := 0; i < len(h); {
		j := i
		for j < len(h) && h[j] == h[i] {
			j++
		}
		if j-i > 1 {
			parts = append(parts, fmt.Sprintf("%s*%d", h[i], j-i))
		} else {
			parts = append(parts, h[i])
		}
		i = j
	}
	return strings.Join(parts, " ; ")
}
