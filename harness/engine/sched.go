package engine

import (
	"encoding/json"
	"fmt"
	"os"
	"sort"
	"strings"
	"time"

	rt "github.com/enbility/spine-go/internal/verifrt"
)

// SScenario is one closed driver for the schedule explorer (engine S).
type SScenario struct {
	Name       string
	Heavy      bool // large schedule space: the quick tier stops one bound earlier
	TimersFree bool
	MaxTicks   int
	Horizon    int
	Run        rt.RunFunc
}

type sJob struct {
	Scenario string
	Bound    int
	Cache    bool
	Roots    [][]int
	Deadline int64 // unix seconds, 0 = none
	Confirm  []int // non-nil: re-execute exactly this choice sequence
	Split    int   // > 0: explore breadth-first until this many subtree roots are pending and return them
}

type sRes struct {
	Roots   [][]int
	Stats   *rt.ExploreStats
	Confirm []string
	Names   []string
	Windows []string
}

func (sc *SScenario) opts(bound int, cache bool) rt.ExploreOpts {
	return rt.ExploreOpts{Bound: bound, Cache: cache, TimersFree: sc.TimersFree, MaxTicks: sc.MaxTicks, Horizon: sc.Horizon}
}

// WorkSchedules is the worker side of RunSchedules.
func WorkSchedules(scs []*SScenario, job json.RawMessage) json.RawMessage {
	var j sJob
	if err := json.Unmarshal(job, &j); err != nil {
		panic(err)
	}
	var sc *SScenario
	for _, s := range scs {
		if s.Name == j.Scenario {
			sc = s
		}
	}
	if sc == nil {
		panic("unknown scenario " + j.Scenario)
	}
	var res sRes
	if j.Confirm != nil {
		out := sc.Run(rt.Config{Replay: j.Confirm, TimersFree: sc.TimersFree, MaxTicks: sc.MaxTicks, Horizon: sc.Horizon, Names: true})
		res.Confirm = append([]string{}, out.Violations...)
		if out.Res.Diverged != "" {
			res.Confirm = append(res.Confirm, "DIVERGED: "+out.Res.Diverged)
		}
		for _, cp := range out.Res.Choices {
			if cp.Chosen < len(cp.Names) {
				res.Names = append(res.Names, cp.Names[cp.Chosen])
			}
		}
		res.Windows = out.Res.Windows
	} else if j.Split > 0 {
		res.Roots, res.Stats = rt.Split(sc.Run, sc.opts(j.Bound, j.Cache), j.Split)
	} else {
		o := sc.opts(j.Bound, j.Cache)
		o.Roots = j.Roots
		if j.Deadline > 0 {
			o.Deadline = time.Unix(j.Deadline, 0)
		}
		res.Stats = rt.ExploreDFS(sc.Run, o)
	}
	b, _ := json.Marshal(res)
	return b
}

// SPlan says how deep to explore.
type SPlan struct {
	Bounds []int // iterated in order; -1 = unbounded with trace-key pruning
	Race   bool  // run the workers in the race-enabled build and collect race reports
	// RaceMaxBound: bounds above this one run in the plain build (the functional
	// oracles do not need the race detector, which costs a factor of 5-10); every
	// pair of operations that can be unordered is already unordered at bound <= 1.
	RaceMaxBound int
	RaceProp     bool // race reports count as findings of this property
	RaceFuncs    []string
}

// RunSchedules explores every scenario with the iterated bounds on the worker
// pool, confirms violations by re-execution and returns coverage and findings.
// For every bound, the scenarios are split (in workers) and their subtrees
// explored in two pool-wide passes, so that small scenarios run in parallel.
func RunSchedules(c *Ctx, scs []*SScenario, plan SPlan, rep *Report) {
	if rep.Coverage == nil {
		rep.Coverage = map[string]any{}
	}
	racePool := c.PoolFor(plan.Race)
	plainPool := c.PoolFor(false)
	racePool.Recycle = 400
	defer racePool.Close()
	defer plainPool.Close()
	total := &rt.ExploreStats{Complete: true}
	perScenario := map[string]any{}
	budgetHit := false
	var samples []any
	type scState struct {
		sc         *SScenario
		info       map[string]any
		completed  string
		completedI int
		distinct   map[string]int
		seenClause map[string]bool
		done       bool
	}
	var sts []*scState
	for _, sc := range scs {
		if only := os.Getenv("VERIF_ONLY"); only != "" && !strings.Contains(sc.Name, only) {
			continue
		}
		sts = append(sts, &scState{sc: sc, info: map[string]any{}, completed: "none", completedI: -2, distinct: map[string]int{}, seenClause: map[string]bool{}})
	}
	for bidx, b := range plan.Bounds {
		if time.Now().After(c.Deadline()) {
			budgetHit = true
			break
		}
		cache := true // sound for bounded runs too: the key then includes the running thread and the cost so far
		type part struct {
			st    *scState
			stats *rt.ExploreStats
			roots [][]int
			race  bool
		}
		var parts []*part
		for _, st := range sts {
			if st.done {
				continue
			}
			if st.sc.Heavy && !c.Thorough && bidx == len(plan.Bounds)-1 && bidx > 0 {
				continue
			}
			race := plan.Race
			if plan.Race && plan.RaceMaxBound > 0 && (b > plan.RaceMaxBound || b < 0 || (st.sc.Heavy && b >= 1)) {
				race = false
			}
			parts = append(parts, &part{st: st, race: race, stats: &rt.ExploreStats{Complete: false}})
		}
		runOn := func(race bool, jobs []json.RawMessage, owner []*part, handle func(p *part, r *sRes)) {
			pool := plainPool
			if race {
				pool = racePool
			}
			crashes := pool.Map(jobs, func(i int, res json.RawMessage) {
				var r sRes
				if err := json.Unmarshal(res, &r); err != nil || r.Stats == nil {
					rep.EngineErr = append(rep.EngineErr, fmt.Sprintf("%s: bad worker result: %v", owner[i].st.sc.Name, err))
					return
				}
				handle(owner[i], &r)
			})
			for _, cr := range crashes {
				p := owner[cr.Job]
				if strings.Contains(cr.Stderr, "VERIFRT-WEDGE") {
					rep.Add(p.st.sc.Name+": wedge", "a thread ran without reaching a scheduling point for 120 s\n"+tail(cr.Stderr, 3000), map[string]any{"scenario": p.st.sc.Name, "job": string(jobs[cr.Job])})
				} else {
					rep.EngineErr = append(rep.EngineErr, fmt.Sprintf("%s: worker died: %s\n%s", p.st.sc.Name, cr.Err, tail(cr.Stderr, 2000)))
				}
				p.stats.Complete = false
			}
		}
		for _, race := range []bool{true, false} {
			// pass 1: split every scenario (in a worker, so that every execution is seen by the race detector)
			var jobs []json.RawMessage
			var owner []*part
			for _, p := range parts {
				if p.race != race {
					continue
				}
				sj, _ := json.Marshal(sJob{Scenario: p.st.sc.Name, Bound: b, Cache: cache, Split: c.Workers * 8})
				jobs = append(jobs, sj)
				owner = append(owner, p)
			}
			if len(jobs) == 0 {
				continue
			}
			runOn(race, jobs, owner, func(p *part, r *sRes) { p.roots, p.stats = r.Roots, r.Stats })
			// pass 2: all subtrees of all scenarios
			jobs, owner = nil, nil
			for _, p := range parts {
				if p.race != race {
					continue
				}
				for _, r := range p.roots {
					jb, _ := json.Marshal(sJob{Scenario: p.st.sc.Name, Bound: b, Cache: cache, Roots: [][]int{r}, Deadline: c.Deadline().Unix()})
					jobs = append(jobs, jb)
					owner = append(owner, p)
				}
			}
			if len(jobs) > 0 {
				runOn(race, jobs, owner, func(p *part, r *sRes) { p.stats.Merge(r.Stats) })
			}
		}
		for _, p := range parts {
			st, sc := p.stats, p.st.sc
			for _, d := range st.Diverged {
				rep.EngineErr = append(rep.EngineErr, sc.Name+": replay divergence: "+d)
			}
			pool := plainPool
			if p.race {
				pool = racePool
			}
			for _, v := range st.Violations {
				ck := sc.Name + ": " + clause(v.Msg)
				if p.st.seenClause[ck] {
					continue
				}
				p.st.seenClause[ck] = true
				ok, names, windows := confirm(c, pool, sc, v)
				if !ok {
					rep.EngineErr = append(rep.EngineErr, fmt.Sprintf("%s: violation %q did not reproduce on re-execution of %v", sc.Name, v.Msg, v.Choices))
					continue
				}
				// the finding is identified by scenario, violated clause and the code windows
				// of the deviations of its (minimal) schedule
				key := ck + " @ " + strings.Join(windows, " ; ")
				rep.Add(key, v.Msg, map[string]any{"windows": windows, "scenario": sc.Name, "choices": v.Choices, "deviations": v.Deviations, "schedule": names, "timers_free": sc.TimersFree, "max_ticks": sc.MaxTicks})
			}
			for k, n := range st.Outcomes {
				p.st.distinct[k] += n
			}
			p.st.info[boundName(b)] = map[string]any{"executions": st.Executions, "states": st.States, "transitions": st.Transitions, "pruned": st.Pruned,
				"max_choice_depth": st.MaxDepth, "max_points": st.MaxPoints, "distinct_outcomes": len(st.Outcomes), "complete": st.Complete,
				"violating_executions": st.NViolations, "horizon_hits": st.Horizons, "points_per_thread_max": st.PerThreadMax, "race_build": p.race,
				"pruning_cache_capped": st.CacheCapped, "pruning_cache_dropped": st.CacheDropped, "stopped_by_memory_limit": st.MemStop}
			total.Merge(st)
			if st.Complete {
				p.st.completed = boundName(b)
				p.st.completedI = b
				if b < 0 {
					p.st.completedI = 1 << 20
				}
			} else {
				budgetHit = true
				p.st.done = true
			}
		}
	}
	maxBoundAll := 1 << 30
	for _, st := range sts {
		st.info["max_bound_completed"] = st.completed
		st.info["distinct_outcomes"] = len(st.distinct)
		if len(st.distinct) <= 1 {
			st.info["vacuity_warning"] = "a single observable outcome over all schedules: nothing collided"
		}
		perScenario[st.sc.Name] = st.info
		if st.completedI < maxBoundAll {
			maxBoundAll = st.completedI
		}
		if len(samples) < 6 {
			var ks []string
			for k := range st.distinct {
				ks = append(ks, k)
			}
			sort.Strings(ks)
			if len(ks) > 3 {
				ks = ks[:3]
			}
			samples = append(samples, map[string]any{"scenario": st.sc.Name, "outcomes": ks})
		}
	}
	mb := "none"
	switch {
	case maxBoundAll >= 1<<20 && maxBoundAll != 1<<30:
		mb = "unbounded"
	case maxBoundAll >= 0 && maxBoundAll != 1<<30:
		mb = fmt.Sprint(maxBoundAll)
	}
	cov := rep.Coverage
	cov["states"] = total.States
	cov["transitions"] = total.Transitions
	cov["traces_validated_against_impl"] = total.Executions
	cov["executions"] = total.Executions
	cov["samples"] = samples
	cov["scenarios"] = perScenario
	cov["max_bound_completed"] = mb
	cov["exhaustive"] = !budgetHit && total.Complete
	cov["time_budget_hit"] = budgetHit
	cov["bounds"] = plan.Bounds
	cov["race_build"] = plan.Race
	if plan.Race {
		// the race detector's log files are complete only after the workers have exited
		racePool.Close()
		plainPool.Close()
		reports := ParseRaceLogs(c.Scratch)
		var keys []string
		for _, r := range reports {
			keys = append(keys, r.Key())
			if plan.RaceProp || relevant(r, plan.RaceFuncs) {
				rep.Add("race: "+r.Key(), fmt.Sprintf("data race (%s/%s) reported by the race detector on an explored schedule\n%s", r.Kinds[0], r.Kinds[1], r.Text), map[string]any{"pair": r.Pair})
			}
		}
		cov["race_pairs_seen"] = keys
	}
}

// relevant: a race report belongs to the property when one of the functions the property anchors is the
// innermost library function of an access, or — for reports both of whose accesses lie in the library —
// appears anywhere in the two access stacks (closures and helpers called by an anchored function).
func relevant(r RaceReport, funcs []string) bool {
	lib := !strings.HasPrefix(r.Pair[0], "app:") && !strings.HasPrefix(r.Pair[1], "app:")
	for _, f := range funcs {
		if strings.Contains(r.Pair[0], f) || strings.Contains(r.Pair[1], f) {
			return true
		}
		if lib && strings.Contains(r.Text, "."+f) {
			return true
		}
	}
	return false
}

func boundName(b int) string {
	if b < 0 {
		return "unbounded"
	}
	return fmt.Sprintf("bound%d", b)
}

// clause is the stable part of an oracle message: everything before " | ".
func clause(msg string) string {
	if i := strings.Index(msg, " | "); i >= 0 {
		return msg[:i]
	}
	return msg
}

func tail(s string, n int) string {
	if len(s) > n {
		return s[len(s)-n:]
	}
	return s
}

// confirm re-executes a violating schedule twice in fresh workers; both runs
// must report the same clause.
func confirm(c *Ctx, pool *Pool, sc *SScenario, v rt.Violation) (bool, []string, []string) {
	jb, _ := json.Marshal(sJob{Scenario: sc.Name, Confirm: v.Choices})
	okCount := 0
	var names, windows []string
	p2 := Pool{Bin: pool.Bin, Args: pool.Args, Env: pool.Env, N: 1}
	for i := 0; i < 2; i++ {
		p2.Map([]json.RawMessage{jb}, func(_ int, res json.RawMessage) {
			var r sRes
			json.Unmarshal(res, &r)
			for _, m := range r.Confirm {
				if clause(m) == clause(v.Msg) {
					okCount++
					names = r.Names
					windows = r.Windows
					break
				}
			}
		})
	}
	return okCount == 2, names, windows
}
