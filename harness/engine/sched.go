package engine

import (
	"encoding/json"
	"fmt"
	"os"
	"sort"
	"strings"
	"time"

	rt "github.com/enbility/spine-go/internal/verifrt"
)

// SScenario is one closed driver for the schedule explorer (engine S).
type SScenario struct {
	Name       string
	Heavy      bool // large schedule space: the quick tier stops one bound earlier
	TimersFree bool
	MaxTicks   int
	Horizon    int
	Run        rt.RunFunc
}

type sJob struct {
	Scenario string
	Bound    int
	Cache    bool
	Roots    [][]int
	Deadline int64 // unix seconds, 0 = none
	Confirm  []int // non-nil: re-execute exactly this choice sequence
}

type sRes struct {
	Stats   *rt.ExploreStats
	Confirm []string
	Names   []string
	Windows []string
}

func (sc *SScenario) opts(bound int, cache bool) rt.ExploreOpts {
	return rt.ExploreOpts{Bound: bound, Cache: cache, TimersFree: sc.TimersFree, MaxTicks: sc.MaxTicks, Horizon: sc.Horizon}
}

// WorkSchedules is the worker side of RunSchedules.
func WorkSchedules(scs []*SScenario, job json.RawMessage) json.RawMessage {
	var j sJob
	if err := json.Unmarshal(job, &j); err != nil {
		panic(err)
	}
	var sc *SScenario
	for _, s := range scs {
		if s.Name == j.Scenario {
			sc = s
		}
	}
	if sc == nil {
		panic("unknown scenario " + j.Scenario)
	}
	var res sRes
	if j.Confirm != nil {
		out := sc.Run(rt.Config{Replay: j.Confirm, TimersFree: sc.TimersFree, MaxTicks: sc.MaxTicks, Horizon: sc.Horizon, Names: true})
		res.Confirm = append([]string{}, out.Violations...)
		if out.Res.Diverged != "" {
			res.Confirm = append(res.Confirm, "DIVERGED: "+out.Res.Diverged)
		}
		for _, cp := range out.Res.Choices {
			if cp.Chosen < len(cp.Names) {
				res.Names = append(res.Names, cp.Names[cp.Chosen])
			}
		}
		res.Windows = out.Res.Windows
	} else {
		o := sc.opts(j.Bound, j.Cache)
		o.Roots = j.Roots
		if j.Deadline > 0 {
			o.Deadline = time.Unix(j.Deadline, 0)
		}
		res.Stats = rt.ExploreDFS(sc.Run, o)
	}
	b, _ := json.Marshal(res)
	return b
}

// SPlan says how deep to explore.
type SPlan struct {
	Bounds []int // iterated in order; -1 = unbounded with trace-key pruning
	Race   bool  // run the workers in the race-enabled build and collect race reports
	// RaceMaxBound: bounds above this one run in the plain build (the functional
	// oracles do not need the race detector, which costs a factor of 5-10); every
	// pair of operations that can be unordered is already unordered at bound <= 1.
	RaceMaxBound int
	RaceProp     bool // race reports count as findings of this property
	RaceFuncs    []string
}

// RunSchedules explores every scenario with the iterated bounds on the worker
// pool, confirms violations by re-execution and returns coverage and findings.
func RunSchedules(c *Ctx, scs []*SScenario, plan SPlan, rep *Report) {
	if rep.Coverage == nil {
		rep.Coverage = map[string]any{}
	}
	racePool := c.PoolFor(plan.Race)
	plainPool := c.PoolFor(false)
	racePool.Recycle = 400
	defer racePool.Close()
	defer plainPool.Close()
	total := &rt.ExploreStats{Complete: true}
	perScenario := map[string]any{}
	maxBoundAll := 1 << 30
	budgetHit := false
	var samples []any
	for _, sc := range scs {
		if only := os.Getenv("VERIF_ONLY"); only != "" && !strings.Contains(sc.Name, only) {
			continue
		}
		info := map[string]any{}
		completed := "none"
		completedInt := -2
		distinct := map[string]int{}
		seenClause := map[string]bool{}
		for bidx, b := range plan.Bounds {
			if time.Now().After(c.Deadline()) {
				budgetHit = true
				break
			}
			if sc.Heavy && !c.Thorough && bidx == len(plan.Bounds)-1 && bidx > 0 {
				break
			}
			pool := racePool
			if plan.Race && plan.RaceMaxBound > 0 && (b > plan.RaceMaxBound || b < 0 || (sc.Heavy && b >= 1)) {
				pool = plainPool
			}
			cache := true // sound for bounded runs too: the key then includes the running thread and the cost so far
			o := sc.opts(b, cache)
			roots, st := rt.Split(sc.Run, o, c.Workers*20)
			var jobs []json.RawMessage
			for _, r := range roots {
				jb, _ := json.Marshal(sJob{Scenario: sc.Name, Bound: b, Cache: cache, Roots: [][]int{r}, Deadline: c.Deadline().Unix()})
				jobs = append(jobs, jb)
			}
			crashes := pool.Map(jobs, func(i int, res json.RawMessage) {
				var r sRes
				if err := json.Unmarshal(res, &r); err != nil || r.Stats == nil {
					rep.EngineErr = append(rep.EngineErr, fmt.Sprintf("%s: bad worker result: %v", sc.Name, err))
					return
				}
				st.Merge(r.Stats)
			})
			for _, cr := range crashes {
				if strings.Contains(cr.Stderr, "VERIFRT-WEDGE") {
					rep.Add(sc.Name+": wedge", "a thread ran without reaching a scheduling point for 120 s\n"+tail(cr.Stderr, 3000), map[string]any{"scenario": sc.Name, "job": string(jobs[cr.Job])})
				} else {
					rep.EngineErr = append(rep.EngineErr, fmt.Sprintf("%s: worker died: %s\n%s", sc.Name, cr.Err, tail(cr.Stderr, 2000)))
				}
				st.Complete = false
			}
			for _, d := range st.Diverged {
				rep.EngineErr = append(rep.EngineErr, sc.Name+": replay divergence: "+d)
			}
			// confirm and record violations (fewest deviations first)
			for _, v := range st.Violations {
				ck := sc.Name + ": " + clause(v.Msg)
				if seenClause[ck] {
					continue
				}
				seenClause[ck] = true
				ok, names, windows := confirm(c, pool, sc, v)
				if !ok {
					rep.EngineErr = append(rep.EngineErr, fmt.Sprintf("%s: violation %q did not reproduce on re-execution of %v", sc.Name, v.Msg, v.Choices))
					continue
				}
				// the finding is identified by scenario, violated clause and the code windows
				// of the deviations of its (minimal) schedule
				key := ck + " @ " + strings.Join(windows, " ; ")
				rep.Add(key, v.Msg, map[string]any{"windows": windows, "scenario": sc.Name, "choices": v.Choices, "deviations": v.Deviations, "schedule": names, "timers_free": sc.TimersFree, "max_ticks": sc.MaxTicks})
			}
			for k, n := range st.Outcomes {
				distinct[k] += n
			}
			bi := map[string]any{"executions": st.Executions, "states": st.States, "transitions": st.Transitions, "pruned": st.Pruned,
				"max_choice_depth": st.MaxDepth, "max_points": st.MaxPoints, "distinct_outcomes": len(st.Outcomes), "complete": st.Complete,
				"violating_executions": st.NViolations, "horizon_hits": st.Horizons, "points_per_thread_max": st.PerThreadMax}
			info[boundName(b)] = bi
			bi["race_build"] = pool == racePool && plan.Race
			total.Merge(st)
			if st.Complete {
				completed = boundName(b)
				completedInt = b
				if b < 0 {
					completedInt = 1 << 20
				}
			} else {
				budgetHit = true
				break
			}
		}
		info["max_bound_completed"] = completed
		info["distinct_outcomes"] = len(distinct)
		if len(distinct) <= 1 {
			info["vacuity_warning"] = "a single observable outcome over all schedules: nothing collided"
		}
		perScenario[sc.Name] = info
		if completedInt < maxBoundAll {
			maxBoundAll = completedInt
		}
		if len(samples) < 6 {
			var ks []string
			for k := range distinct {
				ks = append(ks, k)
			}
			sort.Strings(ks)
			if len(ks) > 3 {
				ks = ks[:3]
			}
			samples = append(samples, map[string]any{"scenario": sc.Name, "outcomes": ks})
		}
	}
	mb := "none"
	switch {
	case maxBoundAll >= 1<<20 && maxBoundAll != 1<<30:
		mb = "unbounded"
	case maxBoundAll >= 0 && maxBoundAll != 1<<30:
		mb = fmt.Sprint(maxBoundAll)
	}
	cov := rep.Coverage
	cov["states"] = total.States
	cov["transitions"] = total.Transitions
	cov["traces_validated_against_impl"] = total.Executions
	cov["executions"] = total.Executions
	cov["samples"] = samples
	cov["scenarios"] = perScenario
	cov["max_bound_completed"] = mb
	cov["exhaustive"] = !budgetHit && total.Complete
	cov["time_budget_hit"] = budgetHit
	cov["bounds"] = plan.Bounds
	cov["race_build"] = plan.Race
	if plan.Race {
		reports := ParseRaceLogs(c.Scratch)
		var keys []string
		for _, r := range reports {
			keys = append(keys, r.Key())
			if plan.RaceProp || relevant(r, plan.RaceFuncs) {
				rep.Add("race: "+r.Key(), fmt.Sprintf("data race (%s/%s) reported by the race detector on an explored schedule\n%s", r.Kinds[0], r.Kinds[1], r.Text), map[string]any{"pair": r.Pair})
			}
		}
		cov["race_pairs_seen"] = keys
	}
}

func relevant(r RaceReport, funcs []string) bool {
	for _, f := range funcs {
		if strings.Contains(r.Pair[0], f) || strings.Contains(r.Pair[1], f) {
			return true
		}
	}
	return false
}

func boundName(b int) string {
	if b < 0 {
		return "unbounded"
	}
	return fmt.Sprintf("bound%d", b)
}

// clause is the stable part of an oracle message: everything before " | ".
func clause(msg string) string {
	if i := strings.Index(msg, " | "); i >= 0 {
		return msg[:i]
	}
	return msg
}

func tail(s string, n int) string {
	if len(s) > n {
		return s[len(s)-n:]
	}
	return s
}

// confirm re-executes a violating schedule twice in fresh workers; both runs
// must report the same clause.
func confirm(c *Ctx, pool *Pool, sc *SScenario, v rt.Violation) (bool, []string, []string) {
	jb, _ := json.Marshal(sJob{Scenario: sc.Name, Confirm: v.Choices})
	okCount := 0
	var names, windows []string
	p2 := Pool{Bin: pool.Bin, Args: pool.Args, Env: pool.Env, N: 1}
	for i := 0; i < 2; i++ {
		p2.Map([]json.RawMessage{jb}, func(_ int, res json.RawMessage) {
			var r sRes
			json.Unmarshal(res, &r)
			for _, m := range r.Confirm {
				if clause(m) == clause(v.Msg) {
					okCount++
					names = r.Names
					windows = r.Windows
					break
				}
			}
		})
	}
	return okCount == 2, names, windows
}
