package engine

import (
	rt "github.com/enbility/spine-go/internal/verifrt"

	"crypto/sha256"
	"encoding/hex"
	"encoding/json"
	"fmt"
	"os"
	"path/filepath"
	"runtime"
	"sort"
	"strings"
	"time"
)

// Finding is one discrepancy between the implementation and the property.
type Finding struct {
	// Key identifies the failing input / history / code window specifically; it is
	// what known_findings.json lists.
	Key    string
	Msg    string
	Replay any // enough to re-execute it: scenario, parameters, choices or history
}

type Report struct {
	Level       string // evidence level: model_checking | exploration
	Coverage    map[string]any
	Assumptions []string
	Findings    []Finding
	EngineErr   []string // problems of the machinery itself (never a VIOLATION)
	EngineNote  []string // observations about the machinery that do not invalidate the run (printed, stored, exit status unchanged)
}

func (r *Report) Add(key, msg string, replay any) {
	for _, f := range r.Findings {
		if f.Key == key {
			return
		}
	}
	r.Findings = append(r.Findings, Finding{Key: key, Msg: msg, Replay: replay})
}

type Ctx struct {
	known    *KnownFile
	Prop     string
	Tier     string
	Seed     int64
	Verif    string
	Bin      string // this binary
	RaceBin  string // race-enabled build of this binary ("" if not built)
	Scratch  string
	Workers  int
	Start    time.Time
	Budget   time.Duration // internal time budget of the tier
	Replay   string
	Thorough bool
}

func (c *Ctx) Deadline() time.Time { return c.Start.Add(c.Budget) }

// PoolFor returns a pool running this property's worker in the plain or the race build.
func (c *Ctx) PoolFor(race bool, extraArgs ...string) *Pool {
	bin := c.Bin
	env := []string{"GOMAXPROCS=2"}
	if race {
		if c.RaceBin == "" {
			panic("race build requested but not available")
		}
		bin = c.RaceBin
		env = append(env, "GORACE=halt_on_error=0 log_path="+filepath.Join(c.Scratch, "race"))
	}
	args := append([]string{"-worker", "-prop", c.Prop, "-tier", c.Tier, "-scratch", c.Scratch}, extraArgs...)
	return &Pool{Bin: bin, Args: args, Env: env, N: c.Workers, Recycle: 0}
}

type Check struct {
	ID        string
	NeedsRace bool
	Drivers   func(c *Ctx) []*HDriver   // engine H drivers (optional)
	Scenarios func(c *Ctx) []*SScenario // engine S scenarios (optional)
	Families  func(c *Ctx) []*IFamily   // engine I families (optional)
	Run       func(c *Ctx) *Report
	Work      func(c *Ctx, job json.RawMessage) json.RawMessage // custom jobs (engine I)
}

// Dispatch is the worker entry point: history, schedule or custom job.
func (k *Check) Dispatch(c *Ctx, job json.RawMessage) json.RawMessage {
	var probe struct{ Driver, Scenario, Family string }
	json.Unmarshal(job, &probe)
	switch {
	case probe.Family != "" && k.Families != nil:
		return WorkFamilies(k.Families(c), job)
	case probe.Driver != "" && k.Drivers != nil:
		return WorkHistories(k.Drivers(c), job)
	case probe.Scenario != "" && k.Scenarios != nil:
		return WorkSchedules(k.Scenarios(c), job)
	case k.Work != nil:
		return k.Work(c, job)
	}
	panic("no worker for job " + string(job))
}

// ReplayStored re-executes a stored replay (history or schedule) and reports
// whether it still violates.
func (k *Check) ReplayStored(c *Ctx, replay json.RawMessage) (bool, string) {
	var r struct {
		Driver   string
		History  []string
		Scenario string
		Choices  []int
	}
	if err := json.Unmarshal(replay, &r); err != nil {
		return false, "cannot decode replay: " + err.Error()
	}
	if r.Driver != "" && k.Drivers != nil {
		for _, d := range k.Drivers(c) {
			if d.Name == r.Driver {
				h := r.History
				st, _ := ExecStep(d, h[:len(h)-1], h[len(h)-1])
				msg := fmt.Sprintf("history: %v\nstate: %s\nobservation: %s\nviolations: %v", h, st.Key, st.Digest, st.Violations)
				return len(st.Violations) > 0, msg
			}
		}
	}
	if r.Scenario != "" && k.Scenarios != nil {
		for _, sc := range k.Scenarios(c) {
			if sc.Name == r.Scenario {
				out := sc.Run(rt.Config{Replay: r.Choices, TimersFree: sc.TimersFree, MaxTicks: sc.MaxTicks, Horizon: sc.Horizon, Names: true})
				var names []string
				for _, cp := range out.Res.Choices {
					if cp.Chosen < len(cp.Names) {
						names = append(names, cp.Names[cp.Chosen])
					}
				}
				msg := fmt.Sprintf("schedule: %v\noutcome: %s\nviolations: %v\ndiverged: %q", names, out.Digest, out.Violations, out.Res.Diverged)
				return len(out.Violations) > 0, msg
			}
		}
	}
	return false, "replay does not name a driver or scenario of this check"
}

var Checks = map[string]*Check{}

func Register(c *Check) { Checks[c.ID] = c }

// ---------------------------------------------------------------- known findings

type KnownEntry struct {
	Property string   `json:"property"`
	Status   string   `json:"status"` // known | fixed
	What     string   `json:"what"`
	Commit   string   `json:"commit,omitempty"`
	Keys     []string `json:"keys,omitempty"`
}

type KnownFile struct {
	Findings []KnownEntry `json:"findings"`
}

func LoadKnown(verif string) *KnownFile {
	k := &KnownFile{}
	b, err := os.ReadFile(filepath.Join(verif, "known_findings.json"))
	if err != nil {
		return k
	}
	if err := json.Unmarshal(b, k); err != nil {
		fmt.Fprintf(os.Stderr, "engine: known_findings.json: %v\n", err)
		os.Exit(2)
	}
	return k
}

// IsKnownKey: the key is listed for a recorded (not repaired) finding of this property.
func (c *Ctx) IsKnownKey(key string) bool {
	if c.known == nil {
		c.known = LoadKnown(c.Verif)
	}
	return c.known.match(c.Prop, key) != nil
}

func (k *KnownFile) match(prop, key string) *KnownEntry {
	for i := range k.Findings {
		e := &k.Findings[i]
		if e.Property != prop || e.Status != "known" {
			continue
		}
		for _, kk := range e.Keys {
			if kk == key {
				return e
			}
		}
	}
	return nil
}

// ---------------------------------------------------------------- evidence

// outDir: where evidence and replays go. /verif unless VERIF_OUT names another directory (used when the
// checks are pointed at a scratch tree with VERIF_REPO, so that /verif/evidence always describes /repo).
func outDir(c *Ctx) string {
	if d := os.Getenv("VERIF_OUT"); d != "" {
		return d
	}
	return c.Verif
}

type evidence struct {
	PropertyID  string         `json:"property_id"`
	Tier        string         `json:"tier"`
	Seed        int64          `json:"seed"`
	Level       string         `json:"level"`
	Coverage    map[string]any `json:"coverage"`
	Assumptions []string       `json:"assumptions,omitempty"`
	WallS       float64        `json:"wall_s"`
	Violations  int            `json:"violations"`
}

// Finish classifies the findings, writes replays and the evidence file, prints
// the KNOWN-FINDING / VIOLATION lines and returns the process exit code.
func Finish(c *Ctx, r *Report) int {
	known := LoadKnown(c.Verif)
	sort.SliceStable(r.Findings, func(i, j int) bool { return r.Findings[i].Key < r.Findings[j].Key })
	matched := map[*KnownEntry][]string{}
	var order []*KnownEntry
	nviol := 0
	var violLines []string
	for _, f := range r.Findings {
		if e := known.match(c.Prop, f.Key); e != nil {
			if _, ok := matched[e]; !ok {
				order = append(order, e)
			}
			matched[e] = append(matched[e], f.Key)
			continue
		}
		nviol++
		if nviol > 25 {
			continue
		}
		h := sha256.Sum256([]byte(f.Key))
		name := fmt.Sprintf("%s-%s.json", c.Prop, hex.EncodeToString(h[:6]))
		path := filepath.Join(outDir(c), "replays", name)
		os.MkdirAll(filepath.Dir(path), 0o755)
		b, _ := json.MarshalIndent(map[string]any{"property": c.Prop, "tier": c.Tier, "key": f.Key, "message": f.Msg, "replay": f.Replay}, "", " ")
		os.WriteFile(path, b, 0o644)
		violLines = append(violLines, fmt.Sprintf("VIOLATION property=%s replay=%s", c.Prop, path))
		fmt.Fprintf(os.Stderr, "  %s\n    %s\n", f.Key, strings.ReplaceAll(f.Msg, "\n", "\n    "))
	}
	if dump := os.Getenv("VERIF_DUMP_KEYS"); dump != "" {
		var all []string
		for _, f := range r.Findings {
			all = append(all, f.Key)
		}
		b, _ := json.MarshalIndent(all, "", " ")
		os.WriteFile(dump, b, 0o644)
	}
	var knownKeys []string
	for _, e := range order {
		fmt.Printf("KNOWN-FINDING: property=%s %s (%d matching case(s))\n", c.Prop, e.What, len(matched[e]))
		knownKeys = append(knownKeys, matched[e]...)
	}
	if r.Coverage == nil {
		r.Coverage = map[string]any{}
	}
	r.Coverage["known_findings_matched"] = len(knownKeys)
	r.Coverage["known_finding_keys"] = knownKeys
	r.Coverage["engine_errors"] = r.EngineErr
	r.Coverage["engine_notes"] = r.EngineNote
	for _, n := range r.EngineNote {
		fmt.Fprintf(os.Stderr, "ENGINE-NOTE: %s\n", n)
	}
	r.Coverage["workers"] = c.Workers
	r.Coverage["go"] = runtime.Version()
	ev := evidence{PropertyID: c.Prop, Tier: c.Tier, Seed: c.Seed, Level: r.Level, Coverage: r.Coverage,
		Assumptions: r.Assumptions, WallS: time.Since(c.Start).Seconds(), Violations: nviol}
	b, _ := json.MarshalIndent(ev, "", " ")
	evp := filepath.Join(outDir(c), "evidence", c.Prop+".json")
	os.MkdirAll(filepath.Dir(evp), 0o755)
	if err := os.WriteFile(evp, b, 0o644); err != nil {
		fmt.Fprintf(os.Stderr, "engine: cannot write evidence: %v\n", err)
		return 2
	}
	for _, l := range violLines {
		fmt.Println(l)
	}
	if nviol > 0 {
		return 1
	}
	if len(r.EngineErr) > 0 {
		for _, e := range r.EngineErr {
			fmt.Fprintf(os.Stderr, "ENGINE-ERROR: %s\n", e)
		}
		return 2
	}
	fmt.Printf("OK property=%s tier=%s wall=%.1fs\n", c.Prop, c.Tier, time.Since(c.Start).Seconds())
	return 0
}
