package engine

import (
	"encoding/json"
	"fmt"
	"os"
	"sort"
	"strings"
	"time"
)

// IFamily is one finite input family for the exhaustive enumerator (engine I).
// The family is cut into Chunks independent pieces that workers enumerate.
type IFamily struct {
	Name   string
	Chunks int
	Rule   string // how cases are enumerated and what makes one non-trivial
	Run    func(chunk int) IResult
}

type IFail struct {
	Key   string // specific identity of the failing input (or of its input class)
	Msg   string
	Input any
}

type IResult struct {
	Evals      int64
	Nontrivial int64
	Fails      []IFail
	NFails     int64
	Samples    []string
	States     int64 // optional: distinct states of an embedded closure search
}

type iJob struct {
	Family string
	Chunk  int
}

// WorkFamilies is the worker side of RunFamilies.
func WorkFamilies(fams []*IFamily, job json.RawMessage) json.RawMessage {
	var j iJob
	json.Unmarshal(job, &j)
	for _, f := range fams {
		if f.Name == j.Family {
			r := f.Run(j.Chunk)
			b, _ := json.Marshal(r)
			return b
		}
	}
	panic("unknown family " + j.Family)
}

// RunFamilies enumerates every family completely on the worker pool.
func RunFamilies(c *Ctx, fams []*IFamily, rep *Report) {
	pool := c.PoolFor(false)
	defer pool.Close()
	if rep.Coverage == nil {
		rep.Coverage = map[string]any{}
	}
	var total, nontriv int64
	cov := rep.Coverage
	addI := func(k string, v int64) {
		if x, ok := cov[k].(int64); ok {
			cov[k] = x + v
		} else {
			cov[k] = v
		}
	}
	perFam := map[string]any{}
	var samples []any
	var rules []string
	exhaustive := true
	for _, f := range fams {
		if only := os.Getenv("VERIF_ONLY"); only != "" && !strings.Contains(f.Name, only) {
			continue
		}
		if time.Now().After(c.Deadline()) {
			exhaustive = false
			perFam[f.Name] = "skipped: time budget"
			continue
		}
		var jobs []json.RawMessage
		for i := 0; i < f.Chunks; i++ {
			b, _ := json.Marshal(iJob{Family: f.Name, Chunk: i})
			jobs = append(jobs, b)
		}
		var fr IResult
		crashes := pool.Map(jobs, func(i int, res json.RawMessage) {
			var r IResult
			if err := json.Unmarshal(res, &r); err != nil {
				rep.EngineErr = append(rep.EngineErr, f.Name+": bad worker result")
				return
			}
			fr.Evals += r.Evals
			fr.Nontrivial += r.Nontrivial
			fr.NFails += r.NFails
			fr.States += r.States
			fr.Fails = append(fr.Fails, r.Fails...)
			if len(fr.Samples) < 4 {
				fr.Samples = append(fr.Samples, r.Samples...)
			}
		})
		for _, cr := range crashes {
			if strings.Contains(cr.Stderr, "VERIFRT-WEDGE") {
				rep.Add(f.Name+": wedge", "an input made the code under test run without end\n"+tail(cr.Stderr, 3000), map[string]any{"family": f.Name, "job": string(jobs[cr.Job])})
			} else {
				rep.EngineErr = append(rep.EngineErr, fmt.Sprintf("%s: worker died: %s\n%s", f.Name, cr.Err, tail(cr.Stderr, 3000)))
			}
			exhaustive = false
		}
		sort.SliceStable(fr.Fails, func(i, j int) bool { return fr.Fails[i].Key < fr.Fails[j].Key })
		for _, fl := range fr.Fails {
			rep.Add(f.Name+": "+fl.Key, fl.Msg, map[string]any{"family": f.Name, "input": fl.Input})
		}
		total += fr.Evals
		addI("closure_states", fr.States)
		nontriv += fr.Nontrivial
		perFam[f.Name] = map[string]any{"evaluations": fr.Evals, "distinct_nontrivial": fr.Nontrivial, "failing_evaluations": fr.NFails, "chunks": f.Chunks, "rule": f.Rule, "states": fr.States}
		rules = append(rules, f.Name+": "+f.Rule)
		for _, s := range fr.Samples {
			if len(samples) < 16 {
				samples = append(samples, map[string]any{"family": f.Name, "case": s})
			}
		}
	}
	addI("evaluations", total)
	addI("distinct_nontrivial", nontriv)
	if r, ok := cov["rule"].(string); ok {
		cov["rule"] = r + " || " + strings.Join(rules, " || ")
	} else {
		cov["rule"] = strings.Join(rules, " || ")
	}
	if s, ok := cov["samples"].([]any); ok {
		cov["samples"] = append(s, samples...)
	} else {
		cov["samples"] = samples
	}
	fm, _ := cov["families"].(map[string]any)
	if fm == nil {
		fm = map[string]any{}
	}
	for k, v := range perFam {
		fm[k] = v
	}
	cov["families"] = fm
	if e, ok := cov["exhaustive"].(bool); ok {
		cov["exhaustive"] = e && exhaustive
	} else {
		cov["exhaustive"] = exhaustive
	}
}
