// Package engine holds what all property drivers share: the worker pool
// (process-level parallelism; every worker is a fresh copy of this binary), the
// check registry, evidence and known-findings handling and the parser for
// race-detector logs.
package engine

import (
	"bufio"
	"bytes"
	"encoding/json"
	"fmt"
	"io"
	"os"
	"os/exec"
	"sync"
)

type jobMsg struct {
	ID  int             `json:"id"`
	Job json.RawMessage `json:"job"`
}

type resMsg struct {
	ID  int             `json:"id"`
	Res json.RawMessage `json:"res"`
}

// Crash describes a worker that died while handling a job.
type Crash struct {
	Job    int
	Err    string
	Stderr string
}

type Pool struct {
	Bin     string
	Args    []string
	Env     []string
	N       int
	Recycle int // restart a worker after this many jobs (0: never)
	procs   []*wproc
}

type wproc struct {
	cmd    *exec.Cmd
	in     io.WriteCloser
	rd     *bufio.Reader
	stderr *bytes.Buffer
	done   int
}

func (p *Pool) start() (*wproc, error) {
	cmd := exec.Command(p.Bin, p.Args...)
	cmd.Env = append(os.Environ(), p.Env...)
	w := &wproc{cmd: cmd, stderr: &bytes.Buffer{}}
	cmd.Stderr = w.stderr
	cmd.Stdout = w.stderr // the code under test may print; results travel on fd 3
	w.in, _ = cmd.StdinPipe()
	rp, wp, err := os.Pipe()
	if err != nil {
		return nil, err
	}
	cmd.ExtraFiles = []*os.File{wp}
	if err := cmd.Start(); err != nil {
		rp.Close()
		wp.Close()
		return nil, err
	}
	wp.Close()
	w.rd = bufio.NewReaderSize(rp, 1<<20)
	return w, nil
}

func (w *wproc) stop() error {
	w.in.Close()
	io.Copy(io.Discard, w.rd)
	return w.cmd.Wait()
}

// Close ends every worker process of the pool.
func (p *Pool) Close() {
	for _, w := range p.procs {
		if w != nil {
			w.in.Close()
		}
	}
	var wg sync.WaitGroup
	for _, w := range p.procs {
		if w != nil {
			wg.Add(1)
			go func(w *wproc) { defer wg.Done(); io.Copy(io.Discard, w.rd); w.cmd.Wait() }(w)
		}
	}
	wg.Wait()
	p.procs = nil
}

// Map runs every job on the pool and calls handle (serially) for each result.
// Jobs whose worker died are reported as crashes; the pool keeps going. Worker
// processes stay alive between calls until Close.
func (p *Pool) Map(jobs []json.RawMessage, handle func(i int, res json.RawMessage)) []Crash {
	var mu sync.Mutex
	var crashes []Crash
	next := 0
	take := func() int {
		mu.Lock()
		defer mu.Unlock()
		if next >= len(jobs) {
			return -1
		}
		next++
		return next - 1
	}
	if len(p.procs) < p.N {
		p.procs = append(p.procs, make([]*wproc, p.N-len(p.procs))...)
	}
	var wg sync.WaitGroup
	n := p.N
	if n > len(jobs) {
		n = len(jobs)
	}
	for w := 0; w < n; w++ {
		wg.Add(1)
		go func(slot int) {
			defer wg.Done()
			for {
				i := take()
				if i < 0 {
					return
				}
				wp := p.procs[slot]
				if wp == nil {
					var err error
					wp, err = p.start()
					if err != nil {
						mu.Lock()
						crashes = append(crashes, Crash{Job: i, Err: "start: " + err.Error()})
						mu.Unlock()
						return
					}
					p.procs[slot] = wp
				}
				b, _ := json.Marshal(jobMsg{ID: i, Job: jobs[i]})
				_, werr := wp.in.Write(append(b, '\n'))
				var line []byte
				var rerr error
				if werr == nil {
					line, rerr = wp.rd.ReadBytes('\n')
				}
				if werr != nil || rerr != nil {
					err := wp.stop()
					tail := wp.stderr.String()
					if len(tail) > 6000 {
						tail = tail[len(tail)-6000:]
					}
					mu.Lock()
					crashes = append(crashes, Crash{Job: i, Err: fmt.Sprint(err), Stderr: tail})
					mu.Unlock()
					p.procs[slot] = nil
					continue
				}
				var r resMsg
				if err := json.Unmarshal(line, &r); err != nil || r.ID != i {
					mu.Lock()
					crashes = append(crashes, Crash{Job: i, Err: fmt.Sprintf("protocol error: %v: %.200s", err, line)})
					mu.Unlock()
				} else {
					mu.Lock()
					handle(i, r.Res)
					mu.Unlock()
				}
				wp.done++
				if p.Recycle > 0 && wp.done >= p.Recycle {
					wp.stop()
					p.procs[slot] = nil
				}
			}
		}(w)
	}
	wg.Wait()
	return crashes
}

// Serve is the worker loop: one JSON job per line on stdin, one result per line on stdout.
func Serve(work func(job json.RawMessage) json.RawMessage) {
	rd := bufio.NewReaderSize(os.Stdin, 1<<20)
	wr := bufio.NewWriterSize(os.NewFile(3, "results"), 1<<20)
	for {
		line, err := rd.ReadBytes('\n')
		if len(line) > 0 {
			var j jobMsg
			if e := json.Unmarshal(line, &j); e != nil {
				fmt.Fprintf(os.Stderr, "worker: bad job: %v\n", e)
				os.Exit(3)
			}
			res := work(j.Job)
			b, _ := json.Marshal(resMsg{ID: j.ID, Res: res})
			wr.Write(b)
			wr.WriteByte('\n')
			wr.Flush()
		}
		if err != nil {
			return
		}
	}
}
