// Package engine holds what all property drivers share: the worker pool
// (process-level parallelism; every worker is a fresh copy of this binary), the
// check registry, evidence and known-findings handling and the parser for
// race-detector logs.
package engine

import (
	"bufio"
	"bytes"
	"encoding/json"
	"fmt"
	"io"
	"os"
	"os/exec"
	"sync"
)

type jobMsg struct {
	ID  int             `json:"id"`
	Job json.RawMessage `json:"job"`
}

type resMsg struct {
	ID  int             `json:"id"`
	Res json.RawMessage `json:"res"`
}

// Crash describes a worker that died while handling a job.
type Crash struct {
	Job    int
	Err    string
	Stderr string
}

type Pool struct {
	Bin     string
	Args    []string
	Env     []string
	N       int
	Recycle int // restart a worker after this many jobs (0: never)
}

// Map runs every job on the pool and calls handle (serially) for each result.
// Jobs whose worker died are reported as crashes; the pool keeps going.
func (p *Pool) Map(jobs []json.RawMessage, handle func(i int, res json.RawMessage)) []Crash {
	var mu sync.Mutex
	var crashes []Crash
	next := 0
	take := func() int {
		mu.Lock()
		defer mu.Unlock()
		if next >= len(jobs) {
			return -1
		}
		next++
		return next - 1
	}
	var wg sync.WaitGroup
	n := p.N
	if n > len(jobs) {
		n = len(jobs)
	}
	for w := 0; w < n; w++ {
		wg.Add(1)
		go func() {
			defer wg.Done()
			for {
				i := take()
				if i < 0 {
					return
				}
				// (re)start a worker and feed it jobs until it has to be recycled or dies
				cmd := exec.Command(p.Bin, p.Args...)
				cmd.Env = append(os.Environ(), p.Env...)
				var stderr bytes.Buffer
				cmd.Stderr = &stderr
				in, _ := cmd.StdinPipe()
				outp, _ := cmd.StdoutPipe()
				if err := cmd.Start(); err != nil {
					mu.Lock()
					crashes = append(crashes, Crash{Job: i, Err: "start: " + err.Error()})
					mu.Unlock()
					return
				}
				rd := bufio.NewReaderSize(outp, 1<<20)
				done := 0
				for i >= 0 {
					b, _ := json.Marshal(jobMsg{ID: i, Job: jobs[i]})
					_, werr := in.Write(append(b, '\n'))
					var line []byte
					var rerr error
					if werr == nil {
						line, rerr = rd.ReadBytes('\n')
					}
					if werr != nil || rerr != nil {
						in.Close()
						io.Copy(io.Discard, rd)
						err := cmd.Wait()
						tail := stderr.String()
						if len(tail) > 6000 {
							tail = tail[len(tail)-6000:]
						}
						mu.Lock()
						crashes = append(crashes, Crash{Job: i, Err: fmt.Sprint(err), Stderr: tail})
						mu.Unlock()
						cmd = nil
						break
					}
					var r resMsg
					if err := json.Unmarshal(line, &r); err != nil || r.ID != i {
						mu.Lock()
						crashes = append(crashes, Crash{Job: i, Err: fmt.Sprintf("protocol error: %v: %.200s", err, line)})
						mu.Unlock()
					} else {
						mu.Lock()
						handle(i, r.Res)
						mu.Unlock()
					}
					done++
					if p.Recycle > 0 && done >= p.Recycle {
						break
					}
					i = take()
				}
				if cmd != nil {
					in.Close()
					io.Copy(io.Discard, rd)
					cmd.Wait()
				}
				if i < 0 {
					return
				}
			}
		}()
	}
	wg.Wait()
	return crashes
}

// Serve is the worker loop: one JSON job per line on stdin, one result per line on stdout.
func Serve(work func(job json.RawMessage) json.RawMessage) {
	rd := bufio.NewReaderSize(os.Stdin, 1<<20)
	wr := bufio.NewWriterSize(os.Stdout, 1<<20)
	for {
		line, err := rd.ReadBytes('\n')
		if len(line) > 0 {
			var j jobMsg
			if e := json.Unmarshal(line, &j); e != nil {
				fmt.Fprintf(os.Stderr, "worker: bad job: %v\n", e)
				os.Exit(3)
			}
			res := work(j.Job)
			b, _ := json.Marshal(resMsg{ID: j.ID, Res: res})
			wr.Write(b)
			wr.WriteByte('\n')
			wr.Flush()
		}
		if err != nil {
			return
		}
	}
}
