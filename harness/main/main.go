// Command verifh is the harness binary: `verifh -prop C09 -tier quick` runs the
// master of a check, `-worker` serves jobs for it.
package main

import (
	"encoding/json"
	"flag"
	"fmt"
	"os"
	"runtime"
	"strconv"
	"time"

	rt "github.com/enbility/spine-go/internal/verifrt"

	_ "github.com/enbility/spine-go/internal/verifh/checks"
	"github.com/enbility/spine-go/internal/verifh/engine"
)

func main() {
	rt.InitMain()
	prop := flag.String("prop", "", "property id")
	tier := flag.String("tier", "quick", "quick|thorough")
	verif := flag.String("verif", "/verif", "verif directory")
	racebin := flag.String("racebin", "", "race-enabled build of this binary")
	scratch := flag.String("scratch", "", "scratch directory")
	worker := flag.Bool("worker", false, "serve jobs on stdin")
	replay := flag.String("replay", "", "replay file")
	list := flag.Bool("list", false, "list checks")
	flag.Parse()
	if *list {
		for id, c := range engine.Checks {
			fmt.Println(id, c.NeedsRace)
		}
		return
	}
	chk := engine.Checks[*prop]
	if chk == nil {
		fmt.Fprintf(os.Stderr, "unknown property %q\n", *prop)
		os.Exit(2)
	}
	seed, _ := strconv.ParseInt(os.Getenv("VERIF_SEED"), 10, 64)
	workers := runtime.NumCPU()
	if v, err := strconv.Atoi(os.Getenv("VERIF_WORKERS")); err == nil && v > 0 {
		workers = v
	}
	self, _ := os.Executable()
	c := &engine.Ctx{Prop: *prop, Tier: *tier, Seed: seed, Verif: *verif, Bin: self, RaceBin: *racebin, Scratch: *scratch,
		Workers: workers, Start: time.Now(), Thorough: *tier == "thorough", Replay: *replay}
	c.Budget = 4 * time.Minute
	if c.Thorough {
		c.Budget = 25 * time.Minute
	}
	if v, err := strconv.Atoi(os.Getenv("VERIF_BUDGET_S")); err == nil && v > 0 {
		c.Budget = time.Duration(v) * time.Second
	}
	if *worker {
		engine.Serve(func(job json.RawMessage) json.RawMessage { return chk.Dispatch(c, job) })
		return
	}
	if *replay != "" {
		b, err := os.ReadFile(*replay)
		if err != nil {
			fmt.Fprintln(os.Stderr, err)
			os.Exit(2)
		}
		var f struct {
			Replay json.RawMessage `json:"replay"`
		}
		json.Unmarshal(b, &f)
		viol, msg := chk.ReplayStored(c, f.Replay)
		fmt.Println(msg)
		if viol {
			fmt.Printf("VIOLATION property=%s replay=%s\n", *prop, *replay)
			os.Exit(1)
		}
		return
	}
	rep := chk.Run(c)
	os.Exit(engine.Finish(c, rep))
}
