package checks

import (
	"encoding/json"
	"fmt"
	"sort"
	"strings"

	rt "github.com/enbility/spine-go/internal/verifrt"

	"github.com/enbility/spine-go/api"
	"github.com/enbility/spine-go/internal/verifh/engine"
	"github.com/enbility/spine-go/internal/verifh/world"
	"github.com/enbility/spine-go/model"
	"github.com/enbility/spine-go/util"
)

// C05 — no inbound byte sequence can crash or wedge the stack.

type c05World struct {
	w    *world.World
	a, b *world.Peer
}

// state 0: just connected; 1: after discovery; 2: after discovery, subscription, binding, pending request with callback
func newC05World(state int) *c05World {
	c := &c05World{w: world.New(true)}
	stdLocal(c.w)
	ents := []world.EntSpec{clientEntity([]uint{1}), clientEntity([]uint{2})}
	if state == 0 {
		c.a = c.w.Connect("A", "dA")
		c.a.Ents = ents
	} else {
		c.a = c.w.ConnectAndAnnounce("A", "dA", ents)
	}
	c.b = c.w.ConnectAndAnnounce("B", "dB", ents)
	if state >= 2 {
		c.a.Deliver(c.a.SubscribeCall(cliAddr("A", "e1f1", true), srvAddr("L1lc", true), model.FeatureTypeTypeLoadControl))
		c.a.Deliver(c.a.BindCall(cliAddr("A", "e1f1", true), srvAddr("L1lc", true), model.FeatureTypeTypeLoadControl))
		lf := c.w.L.FeatureByAddress(world.FAddr(world.LocalAddr, []uint{1}, lLCClient))
		rf := c.a.Dev.FeatureByAddress(cliAddr("A", "e1f4", true))
		if ctr, err := lf.RequestRemoteData(fnLimit, nil, nil, rf); err == nil && ctr != nil {
			_ = lf.AddResponseCallback(*ctr, func(api.ResponseMessage) {})
		}
		lf.AddResultCallback(func(api.ResponseMessage) {})
		c.w.L.FeatureByAddress(srvAddr("L1lc", true)).SetData(fnLimit, limitList(1, 1, 2))
	}
	if state == 3 {
		// the application approves every write it is asked about, from the goroutine the stack starts for the callback
		srv := c.w.L.FeatureByAddress(srvAddr("L1lc", true))
		_ = srv.AddWriteApprovalCallback(func(m *api.Message) { srv.ApproveOrDenyWrite(m, model.ErrorType{ErrorNumber: 0}) })
	}
	rt.WaitIdle()
	return c
}

type c05Seed struct {
	name string
	raw  []byte
}

// c05Seeds builds the 22 valid seed messages as peer A would send them (state-independent bytes).
func c05Seeds() []c05Seed {
	var seeds []c05Seed
	var res *rt.Result
	res = rt.Execute(rt.Config{}, func() {
		c := newC05World(2)
		a := c.a
		a.SetCounter(100)
		add := func(name string, d model.DatagramType) {
			b, _ := json.Marshal(model.Datagram{Datagram: d})
			seeds = append(seeds, c05Seed{name, b})
		}
		A, R := model.NetworkManagementStateChangeTypeAdded, model.NetworkManagementStateChangeTypeRemoved
		partial := []model.FilterType{*model.NewFilterTypePartial()}
		ddfn := util.Ptr(model.FunctionTypeNodeManagementDetailedDiscoveryData)
		add("discovery-reply", a.Datagram(a.NM(), world.LocalNM(), model.CmdClassifierTypeReply, false, ptrCtr(1), model.CmdType{NodeManagementDetailedDiscoveryData: a.DiscoveryData(a.Ents, true, nil)}))
		add("discovery-notify-add", a.Datagram(a.NM(), world.LocalNM(), model.CmdClassifierTypeNotify, false, nil, model.CmdType{Function: ddfn, Filter: partial,
			NodeManagementDetailedDiscoveryData: a.DiscoveryData([]world.EntSpec{clientEntity([]uint{1, 1})}, false, &A)}))
		rmd := a.DiscoveryData([]world.EntSpec{{Addr: []uint{2}, Type: model.EntityTypeTypeCEM}}, false, &R)
		add("discovery-notify-remove", a.Datagram(a.NM(), world.LocalNM(), model.CmdClassifierTypeNotify, false, nil, model.CmdType{Function: ddfn, Filter: partial, NodeManagementDetailedDiscoveryData: rmd}))
		add("discovery-notify-full", a.Datagram(a.NM(), world.LocalNM(), model.CmdClassifierTypeNotify, false, nil, model.CmdType{NodeManagementDetailedDiscoveryData: a.DiscoveryData([]world.EntSpec{clientEntity([]uint{1})}, true, nil)}))
		uc := &model.NodeManagementUseCaseDataType{}
		uc.AddUseCaseSupport(*world.FAddr("dA", []uint{1}, 0), model.UseCaseActorTypeCEM, ucNames["u1"], "1.0.0", "r", true, scenList("12"))
		add("usecase-reply", a.Datagram(a.NM(), world.LocalNM(), model.CmdClassifierTypeReply, false, ptrCtr(3), model.CmdType{NodeManagementUseCaseData: uc}))
		add("subscription-request", a.SubscribeCall(cliAddr("A", "e2f1", true), srvAddr("L2lc", true), model.FeatureTypeTypeLoadControl))
		add("subscription-delete", a.UnsubscribeCall(cliAddr("A", "e1f1", true), srvAddr("L1lc", true)))
		add("binding-request", a.BindCall(cliAddr("A", "e2f1", true), srvAddr("L2lc", true), model.FeatureTypeTypeLoadControl))
		add("binding-delete", a.UnbindCall(cliAddr("A", "e1f1", true), srvAddr("L1lc", true)))
		add("read", a.Datagram(cliAddr("A", "e1f1", true), srvAddr("L1lc", true), model.CmdClassifierTypeRead, false, nil, model.CmdType{LoadControlLimitListData: &model.LoadControlLimitListDataType{}}))
		selF := model.FilterType{CmdControl: &model.CmdControlType{Partial: &model.ElementTagType{}},
			LoadControlLimitListDataSelectors: &model.LoadControlLimitListDataSelectorsType{LimitId: util.Ptr(model.LoadControlLimitIdType(1))},
			LoadControlLimitDataElements:      &model.LoadControlLimitDataElementsType{Value: &model.ScaledNumberElementsType{}}}
		add("read-selector-elements", a.Datagram(cliAddr("A", "e1f1", true), srvAddr("L1lc", true), model.CmdClassifierTypeRead, false, nil,
			model.CmdType{Function: util.Ptr(fnLimit), Filter: []model.FilterType{selF}, LoadControlLimitListData: &model.LoadControlLimitListDataType{}}))
		lcl := world.FAddr(world.LocalAddr, []uint{1}, lLCClient)
		add("reply", a.Datagram(cliAddr("A", "e1f4", true), lcl, model.CmdClassifierTypeReply, false, ptrCtr(4), model.CmdType{LoadControlLimitListData: limitList(2, 1, 2)}))
		add("notify-full", a.Datagram(cliAddr("A", "e1f4", true), lcl, model.CmdClassifierTypeNotify, false, nil, model.CmdType{LoadControlLimitListData: limitList(2, 1, 2)}))
		add("notify-partial", a.Datagram(cliAddr("A", "e1f4", true), lcl, model.CmdClassifierTypeNotify, false, nil, model.CmdType{Function: util.Ptr(fnLimit), Filter: partial, LoadControlLimitListData: limitList(2, 1)}))
		ps := model.FilterType{CmdControl: &model.CmdControlType{Partial: &model.ElementTagType{}}, LoadControlLimitListDataSelectors: &model.LoadControlLimitListDataSelectorsType{LimitId: util.Ptr(model.LoadControlLimitIdType(1))}}
		add("notify-partial-selector", a.Datagram(cliAddr("A", "e1f4", true), lcl, model.CmdClassifierTypeNotify, false, nil, model.CmdType{Function: util.Ptr(fnLimit), Filter: []model.FilterType{ps}, LoadControlLimitListData: limitList(2, 1)}))
		ds := model.FilterType{CmdControl: &model.CmdControlType{Delete: &model.ElementTagType{}}, LoadControlLimitListDataSelectors: &model.LoadControlLimitListDataSelectorsType{LimitId: util.Ptr(model.LoadControlLimitIdType(1))}}
		add("notify-delete-selector", a.Datagram(cliAddr("A", "e1f4", true), lcl, model.CmdClassifierTypeNotify, false, nil, model.CmdType{Function: util.Ptr(fnLimit), Filter: []model.FilterType{ds}, LoadControlLimitListData: &model.LoadControlLimitListDataType{}}))
		de := model.FilterType{CmdControl: &model.CmdControlType{Delete: &model.ElementTagType{}}, LoadControlLimitDataElements: &model.LoadControlLimitDataElementsType{Value: &model.ScaledNumberElementsType{}}}
		add("notify-delete-elements", a.Datagram(cliAddr("A", "e1f4", true), lcl, model.CmdClassifierTypeNotify, false, nil, model.CmdType{Function: util.Ptr(fnLimit), Filter: []model.FilterType{de}, LoadControlLimitListData: &model.LoadControlLimitListDataType{}}))
		add("write-full", a.Datagram(cliAddr("A", "e1f1", true), srvAddr("L1lc", true), model.CmdClassifierTypeWrite, true, nil, model.CmdType{LoadControlLimitListData: limitList(2, 1, 2)}))
		add("write-partial-selector", a.Datagram(cliAddr("A", "e1f1", true), srvAddr("L1lc", true), model.CmdClassifierTypeWrite, true, nil, model.CmdType{Function: util.Ptr(fnLimit), Filter: []model.FilterType{ps}, LoadControlLimitListData: limitList(2, 1)}))
		okr := &model.ResultDataType{ErrorNumber: util.Ptr(model.ErrorNumberType(0))}
		er := &model.ResultDataType{ErrorNumber: util.Ptr(model.ErrorNumberType(7)), Description: util.Ptr(model.DescriptionType("no"))}
		add("result-success", a.Datagram(cliAddr("A", "e1f4", true), lcl, model.CmdClassifierTypeResult, false, ptrCtr(4), model.CmdType{ResultData: okr}))
		add("result-error", a.Datagram(cliAddr("A", "e1f4", true), lcl, model.CmdClassifierTypeResult, false, ptrCtr(4), model.CmdType{ResultData: er}))
		add("result-nodemanagement", a.Datagram(a.NM(), world.LocalNM(), model.CmdClassifierTypeResult, false, ptrCtr(2), model.CmdType{ResultData: er}))
	})
	_ = res
	return seeds
}

// ---------------------------------------------------------------- JSON mutation

type jpath []any // string keys and int indices

func (p jpath) String() string {
	var s []string
	for _, e := range p {
		s = append(s, fmt.Sprint(e))
	}
	return strings.Join(s, ".")
}

func walk(v any, p jpath, visit func(p jpath, v any)) {
	visit(p, v)
	switch x := v.(type) {
	case map[string]any:
		var ks []string
		for k := range x {
			ks = append(ks, k)
		}
		sort.Strings(ks)
		for _, k := range ks {
			walk(x[k], append(append(jpath{}, p...), k), visit)
		}
	case []any:
		for i, e := range x {
			walk(e, append(append(jpath{}, p...), i), visit)
		}
	}
}

func deepCopyJSON(v any) any {
	switch x := v.(type) {
	case map[string]any:
		m := map[string]any{}
		for k, e := range x {
			m[k] = deepCopyJSON(e)
		}
		return m
	case []any:
		l := make([]any, len(x))
		for i, e := range x {
			l[i] = deepCopyJSON(e)
		}
		return l
	}
	return v
}

var removeMarker = &struct{}{}

// setAt returns a copy of root with the node at p replaced (removeMarker: removed).
func setAt(root any, p jpath, nv any) any {
	if len(p) == 0 {
		return nv
	}
	switch x := root.(type) {
	case map[string]any:
		m := map[string]any{}
		for k, e := range x {
			m[k] = e
		}
		k := p[0].(string)
		if len(p) == 1 && nv == any(removeMarker) {
			delete(m, k)
		} else {
			m[k] = setAt(x[k], p[1:], nv)
		}
		return m
	case []any:
		i := p[0].(int)
		if len(p) == 1 && nv == any(removeMarker) {
			return append(append([]any{}, x[:i]...), x[i+1:]...)
		}
		l := append([]any{}, x...)
		l[i] = setAt(x[i], p[1:], nv)
		return l
	}
	return root
}

type mutOp struct {
	name string
	f    func(v any) (any, bool)
}

var mutOps = []mutOp{
	{"remove", func(v any) (any, bool) { return removeMarker, true }},
	{"null", func(v any) (any, bool) { return nil, v != nil }},
	{"empty", func(v any) (any, bool) {
		switch x := v.(type) {
		case map[string]any:
			return map[string]any{}, len(x) > 0
		case []any:
			return []any{}, len(x) > 0
		case string:
			return "", x != ""
		case float64:
			return float64(0), x != 0
		}
		return nil, false
	}},
	{"wrongkind", func(v any) (any, bool) {
		switch v.(type) {
		case map[string]any:
			return []any{}, true
		case []any:
			return "x", true
		case string:
			return float64(7), true
		case float64:
			return map[string]any{}, true
		case bool:
			return "x", true
		}
		return nil, false
	}},
	{"unknownvalue", func(v any) (any, bool) {
		switch v.(type) {
		case string:
			return "somethingUnknown", true
		case float64:
			return float64(4000000000), true
		case bool:
			return false, true
		}
		return nil, false
	}},
}

func init() {
	// "inconsistent value": a value that is valid elsewhere — the other peer's or the local device address,
	// the neighbouring entity, feature, identifier or counter
	mutOps = append(mutOps, mutOp{"othervalid", func(v any) (any, bool) {
		switch x := v.(type) {
		case string:
			switch x {
			case "dA":
				return "dB", true
			case "dB", world.LocalAddr:
				return "dA", true
			}
			// another valid value of the same enumeration: a sibling function of the feature, another feature
			// type, role, classifier, state change
			if y, ok := map[string]string{
				"loadControlLimitListData": "loadControlLimitDescriptionListData", "loadControlLimitDescriptionListData": "loadControlLimitListData",
				"nodeManagementDetailedDiscoveryData": "nodeManagementUseCaseData", "nodeManagementUseCaseData": "nodeManagementDetailedDiscoveryData",
				"measurementListData": "measurementDescriptionListData",
				"LoadControl":         "Measurement", "Measurement": "LoadControl", "NodeManagement": "LoadControl", "DeviceDiagnosis": "LoadControl",
				"client": "server", "server": "client", "special": "client",
				"read": "write", "write": "notify", "notify": "reply", "reply": "notify", "call": "read", "result": "reply",
				"added": "removed", "removed": "modified", "modified": "added",
				"CEM": "EV", "DeviceInformation": "CEM", "EnergyManagementSystem": "ChargingStation", "smart": "simple",
			}[x]; ok {
				return y, true
			}
		case float64:
			return x + 1, true
		}
		return nil, false
	}})
}

type mutant struct {
	desc string
	raw  []byte
}

func singleMutants(seed c05Seed) []mutant {
	var root any
	json.Unmarshal(seed.raw, &root)
	var out []mutant
	walk(root, nil, func(p jpath, v any) {
		if len(p) == 0 {
			return
		}
		for _, op := range mutOps {
			nv, ok := op.f(v)
			if !ok {
				continue
			}
			b, err := json.Marshal(setAt(root, p, nv))
			if err != nil {
				continue
			}
			out = append(out, mutant{fmt.Sprintf("%s@%s", op.name, p), b})
		}
	})
	return out
}

// doubleMutants: all pairs of single mutations at two different nodes (second applied to the result of the first).
func doubleMutants(seed c05Seed, chunk, chunks int) []mutant {
	var root any
	json.Unmarshal(seed.raw, &root)
	type m1 struct {
		desc string
		tree any
	}
	var firsts []m1
	walk(root, nil, func(p jpath, v any) {
		if len(p) == 0 {
			return
		}
		for _, op := range mutOps {
			if nv, ok := op.f(v); ok {
				firsts = append(firsts, m1{fmt.Sprintf("%s@%s", op.name, p), setAt(root, p, nv)})
			}
		}
	})
	var out []mutant
	for i, f := range firsts {
		if i%chunks != chunk {
			continue
		}
		walk(f.tree, nil, func(p jpath, v any) {
			if len(p) == 0 {
				return
			}
			for _, op := range mutOps {
				if nv, ok := op.f(v); ok {
					d := fmt.Sprintf("%s@%s", op.name, p)
					if d <= f.desc {
						continue // unordered pairs once
					}
					if b, err := json.Marshal(setAt(f.tree, p, nv)); err == nil {
						out = append(out, mutant{f.desc + " + " + d, b})
					}
				}
			}
		})
	}
	return out
}

func truncations(seed c05Seed) []mutant {
	var out []mutant
	for i := 0; i < len(seed.raw); i++ {
		out = append(out, mutant{fmt.Sprintf("prefix(%d)", i), seed.raw[:i]})
	}
	out = append(out, mutant{"garbage-wrapped", append(append([]byte("\x00\xff{{["), seed.raw...), []byte("]}}garbage")...)},
		mutant{"twice", append(append([]byte{}, seed.raw...), seed.raw...)}, mutant{"in-array", append(append([]byte("["), seed.raw...), ']')})
	return out
}

// deliverAndProbe: fresh world in the given state, deliver the bytes on A's connection, optionally replay seeds,
// then a valid discovery read on both connections.
func c05Run(state int, raw []byte, replay []c05Seed) (viol []string) {
	answered := map[string]int{}
	res := rt.Execute(rt.Config{Horizon: 200000}, func() {
		c := newC05World(state)
		c.a.DeliverRaw(raw)
		rt.WaitIdle()
		for _, s := range replay {
			c.a.DeliverRaw(s.raw)
			rt.WaitIdle()
		}
		// further valid traffic that touches every registry (its handling must return; what it is answered
		// depends on what the mutant legitimately changed and is not judged)
		b := c.b
		b.SetCounter(4000)
		b.Deliver(b.SubscribeCall(cliAddr("B", "e1f1", true), srvAddr("L2lc", true), model.FeatureTypeTypeLoadControl))
		b.Deliver(b.BindCall(cliAddr("B", "e1f1", true), srvAddr("L2lc", true), model.FeatureTypeTypeLoadControl))
		b.Deliver(b.Datagram(cliAddr("B", "e1f1", true), srvAddr("L2lc", true), model.CmdClassifierTypeWrite, true, nil, model.CmdType{LoadControlLimitListData: limitList(2, 1, 2)}))
		b.Deliver(b.UnbindCall(cliAddr("B", "e1f1", true), srvAddr("L2lc", true)))
		b.Deliver(b.UnsubscribeCall(cliAddr("B", "e1f1", true), srvAddr("L2lc", true)))
		c.w.L.FeatureByAddress(srvAddr("L1lc", true)).SetData(fnLimit, limitList(2, 1, 2))
		rt.WaitIdle()
		for _, p := range []*world.Peer{c.a, c.b} {
			p.SetCounter(5000)
			m := c.w.Mark()
			p.Deliver(p.Datagram(p.NM(), world.LocalNM(), model.CmdClassifierTypeRead, false, nil, model.CmdType{NodeManagementDetailedDiscoveryData: &model.NodeManagementDetailedDiscoveryDataType{}}))
			rt.WaitIdle()
			for _, o := range c.w.Since(m) {
				if o.Conn == p.W.Name && o.Class == "reply" && o.Ref == 5001 && o.Cmd.NodeManagementDetailedDiscoveryData != nil {
					answered[p.Ski]++
				}
			}
		}
		rt.JoinFinished()
	})
	for _, p := range res.Panics {
		fr := p.Frame
		if fr == "" {
			fr = "(outside spine-go) " + firstLine(p.Value)
		}
		viol = append(viol, "panic in "+fr+" | "+firstLine(p.Value))
	}
	if len(res.Deadlock) > 0 || res.Stuck {
		viol = append(viol, fmt.Sprintf("message handling blocks forever | %v", res.Deadlock))
	}
	if res.Horizon {
		viol = append(viol, "message handling does not terminate (step horizon)")
	}
	if len(res.Panics) == 0 {
		for _, p := range []string{"A", "B"} {
			if answered[p] != 1 {
				viol = append(viol, fmt.Sprintf("a valid discovery read is no longer answered afterwards | peer=%s replies=%d", p, answered[p]))
			}
		}
	}
	return
}

func firstLine(s string) string {
	if i := strings.Index(s, "\n"); i >= 0 {
		s = s[:i]
	}
	if len(s) > 160 {
		s = s[:160]
	}
	return s
}

var c05SeedCache []c05Seed

func seedsOnce() []c05Seed {
	if c05SeedCache == nil {
		c05SeedCache = c05Seeds()
	}
	return c05SeedCache
}

func c05Families(thorough bool) []*engine.IFamily {
	nSeeds := 22
	run := func(kind string, chunksPerSeed int, gen func(s c05Seed, sub int) []mutant, replay bool) func(chunk int) engine.IResult {
		return func(chunk int) engine.IResult {
			var r engine.IResult
			seeds := seedsOnce()
			seed := seeds[chunk/chunksPerSeed]
			var rp []c05Seed
			if replay {
				rp = seeds
			}
			for _, m := range gen(seed, chunk%chunksPerSeed) {
				for state := 0; state < 4; state++ {
					r.Evals++
					r.Nontrivial++
					for _, v := range c05Run(state, m.raw, rp) {
						r.NFails++
						key := fmt.Sprintf("%s | seed=%s", strings.SplitN(v, " | ", 2)[0], seed.name)
						dup := false
						for _, f := range r.Fails {
							dup = dup || f.Key == key
						}
						if !dup {
							r.Fails = append(r.Fails, engine.IFail{Key: key, Msg: fmt.Sprintf("%s\nmutation: %s, connection state %d\nbytes: %.600s", v, m.desc, state, m.raw), Input: map[string]any{"seed": seed.name, "mutation": m.desc, "state": state, "bytes": string(m.raw)}})
						}
					}
				}
				if len(r.Samples) < 1 && strings.HasPrefix(m.desc, "wrongkind") {
					r.Samples = append(r.Samples, fmt.Sprintf("%s %s: %.200s", seed.name, m.desc, m.raw))
				}
			}
			return r
		}
	}
	fams := []*engine.IFamily{
		{Name: "valid-seeds", Chunks: nSeeds, Rule: "each of the 22 valid seed messages delivered unchanged in the three connection states, then every seed replayed, then discovery reads on both connections (the harness itself must not raise alarms on valid traffic); non-trivial: all",
			Run: run("seed", 1, func(s c05Seed, _ int) []mutant { return []mutant{{"unchanged", s.raw}} }, true)},
		{Name: "single-mutants", Chunks: nSeeds * 4, Rule: "all single field mutations (remove, null, empty of its kind, wrong kind, unknown value, other valid value: the other peer's/local device address, neighbouring number) of every node of the JSON tree of each of the 22 seed messages x 4 connection states (just connected; after discovery; after discovery+subscription+binding+pending request; the same with a write approval callback that approves at once), each on a fresh world, followed by valid registry traffic of the other peer (subscribe, bind, write, unbind, unsubscribe), a local data change, and a valid discovery read on the mutant's and on the other peer's connection; non-trivial: all",
			Run: run("single", 4, func(s c05Seed, sub int) []mutant {
				var out []mutant
				for i, m := range singleMutants(s) {
					if i%4 == sub {
						out = append(out, m)
					}
				}
				return out
			}, false)},
		{Name: "truncations", Chunks: nSeeds * 2, Rule: "every byte prefix of every seed message, the seed wrapped in garbage, doubled, and inside an array (malformed JSON) x 3 connection states; non-trivial: all",
			Run: run("trunc", 2, func(s c05Seed, sub int) []mutant {
				var out []mutant
				for i, m := range truncations(s) {
					if i%2 == sub {
						out = append(out, m)
					}
				}
				return out
			}, false)},
	}
	// every function of every feature type, not only the LoadControl seeds: the commands FunctionDataCmd builds in
	// all nine shapes (see C01's family of the same generator), delivered as read / reply / notify / write; here
	// only "message handling returns without panicking" is judged
	for _, f := range c01Families(thorough) {
		if f.Name != "commands-built-by-the-api" {
			continue
		}
		inner := f.Run
		fams = append(fams, &engine.IFamily{Name: "every-function", Chunks: f.Chunks,
			Rule: "for every function registered for every feature type: read, read+selector, read+elements, reply, notify and write in the shapes full, partial, partial+selector, delete+selector, delete+elements as built by FunctionDataCmd with reflectively generated selectors and elements, delivered to the matching local server / client feature that holds data; judged: no panic",
			Run: func(chunk int) engine.IResult {
				r := inner(chunk)
				var keep []engine.IFail
				for _, x := range r.Fails {
					if strings.HasPrefix(x.Key, "panic in ") {
						keep = append(keep, x)
					}
				}
				r.Fails, r.NFails = keep, int64(len(keep))
				return r
			}})
	}
	if thorough {
		fams = append(fams,
			&engine.IFamily{Name: "single-mutants-then-all-seeds", Chunks: nSeeds * 8, Rule: "every single mutant followed by a replay of all 22 valid seeds on the same connection ((mutant, seed) ordered pairs) before the probes",
				Run: run("single+replay", 8, func(s c05Seed, sub int) []mutant {
					var out []mutant
					for i, m := range singleMutants(s) {
						if i%8 == sub {
							out = append(out, m)
						}
					}
					return out
				}, true)},
			&engine.IFamily{Name: "double-mutants", Chunks: nSeeds * 64, Rule: "all unordered pairs of field mutations (deviation bound 2) of every seed x 3 connection states",
				Run: run("double", 64, func(s c05Seed, sub int) []mutant { return doubleMutants(s, sub, 64) }, false)})
	}
	return fams
}

// c05Scenarios: two peers deliver their messages at the same time (every connection has its own reader
// goroutine). Each seed is delivered on A's connection while its counterpart (same message with B's
// device address) is delivered on B's; discovery messages announce one feature of a vendor-specific type
// this process has not seen before. Judged on every schedule: no panic, no deadlock, and — because an
// unsynchronised access to shared memory during message handling is a crash waiting for two cores
// ("fatal error: concurrent map writes") — no data race between the two message handlers.
var c05Fresh int

//go:norace
func c05NextFresh() int { c05Fresh++; return c05Fresh }

func c05Scenarios(thorough bool) []*engine.SScenario {
	names := []string{"discovery-reply", "discovery-notify-add", "discovery-notify-full", "usecase-reply", "subscription-request", "binding-request", "read", "notify-partial-selector", "write-partial-selector", "result-error"}
	if thorough {
		names = nil
	}
	var scs []*engine.SScenario
	for _, s := range seedsOnce() {
		keep := names == nil
		for _, n := range names {
			keep = keep || n == s.name
		}
		if !keep {
			continue
		}
		s := s
		scs = append(scs, &engine.SScenario{Name: "A:" + s.name + " || B:" + s.name, Run: func(cfg rt.Config) rt.Outcome {
			var viol []string
			res := rt.Execute(cfg, func() {
				c := newC05World(2)
				fresh := fmt.Sprintf("Vendor%d", c05NextFresh())
				rawA := []byte(strings.Replace(string(s.raw), `"featureType":"Measurement"`, `"featureType":"`+fresh+`A"`, 1))
				rawB := []byte(strings.ReplaceAll(strings.Replace(string(s.raw), `"featureType":"Measurement"`, `"featureType":"`+fresh+`B"`, 1), `"dA"`, `"dB"`))
				rt.BeginExplore()
				rt.Go(func() { c.a.DeliverRaw(rawA) })
				rt.Go(func() { c.b.DeliverRaw(rawB) })
				rt.WaitIdle()
				rt.JoinFinished()
			})
			for _, p := range res.Panics {
				viol = append(viol, "panic in "+p.Frame+" | "+firstLine(p.Value))
			}
			if len(res.Deadlock) > 0 || res.Stuck {
				viol = append(viol, fmt.Sprintf("message handling blocks forever | %v", res.Deadlock))
			}
			return rt.Outcome{Res: res, Violations: viol, Digest: fmt.Sprint(len(res.Panics))}
		}})
	}
	return scs
}

// c05Drivers: "delivered in any order in any connection state" for VALID messages — every order of the messages one
// peer can send around a write that waits for the application's approval (binding, write, its entity announced as
// removed and again as added, subscription, disconnect and reconnect, the approval timeout), searched breadth-first
// over the registry world of C03/C08/C10. Only C05's own oracle is applied here: nothing panics (panics are added to
// every step by the engine), nothing wedges, and both peers' discovery reads are still answered afterwards. (What the
// registries have to look like after each step is judged by the checks that own those statements.)
func c05Drivers(thorough bool) []*engine.HDriver {
	alpha := []string{"bind:A:e1f1:L1lc:lc:d", "write:A:e1f1:L1lc:limit:ack:2", "entrm:A:1", "entadd:A:1", "unbind:A:e1f1:L1lc:d",
		"sub:A:e1f1:L1lc:lc:d", "disc:A", "reconn:A", "fire", "write:A:e2f1:L1lc:limit:ack:2", "bind:A:e2f1:L1lc:lc:d"}
	if thorough {
		alpha = append(alpha, "entrm:A:2", "write:B:e1f1:L2lc:limit:ack:2", "bind:B:e1f1:L2lc:lc:d", "entrm:B:1", "set:L1lc:2")
	}
	var probes []string
	d := regDriver("valid-messages-in-any-order", alpha, true, true, func(rw *regWorld, op string) []string {
		// afterwards the stack still answers a valid detailed-discovery read of every connected peer
		for _, p := range []string{"A", "B"} {
			pe := rw.w.Peers[p]
			if pe == nil || rw.w.L.RemoteDeviceForSki(p) == nil {
				continue
			}
			m := rw.w.Mark()
			pe.Deliver(pe.Datagram(pe.NM(), world.LocalNM(), model.CmdClassifierTypeRead, false, nil, model.CmdType{NodeManagementDetailedDiscoveryData: &model.NodeManagementDetailedDiscoveryDataType{}}))
			rt.WaitIdle()
			n := 0
			for _, o := range rw.w.Since(m) {
				if o.Conn == pe.W.Name && o.Class == "reply" && o.Cmd.NodeManagementDetailedDiscoveryData != nil {
					n++
				}
			}
			if n != 1 {
				probes = append(probes, fmt.Sprintf("the discovery read of peer %s is answered with %d replies afterwards | op=%s", p, n, op))
			}
		}
		return nil
	})
	step := d.Step
	d.Step = func(hist []string, op string) engine.HStep {
		probes = nil
		st := step(hist, op)
		st.Violations = probes // (the registry oracles belong to C03/C08/C09/C10)
		st.Cut = false
		return st
	}
	return []*engine.HDriver{d}
}

func init() {
	engine.Register(&engine.Check{
		ID:        "C05",
		Drivers:   func(c *engine.Ctx) []*engine.HDriver { return c05Drivers(c.Thorough) },
		Families:  func(c *engine.Ctx) []*engine.IFamily { return c05Families(c.Thorough) },
		NeedsRace: true,
		Scenarios: func(c *engine.Ctx) []*engine.SScenario { return c05Scenarios(c.Thorough) },
		Run: func(c *engine.Ctx) *engine.Report {
			rep := &engine.Report{Level: "model_checking", Coverage: map[string]any{}}
			engine.RunFamilies(c, c05Families(c.Thorough), rep)
			ev, _ := rep.Coverage["evaluations"].(int64)
			rep.Coverage["states"] = 3
			rep.Coverage["transitions"] = int(ev)
			rep.Coverage["traces_validated_against_impl"] = int(ev)
			rep.Coverage["seeds"] = 22
			for _, d := range c05Drivers(c.Thorough) {
				depth := 6
				if c.Thorough {
					depth = 8
				}
				st := engine.RunHistories(c, d, depth, rep)
				engine.AddHCoverage(rep, d.Name, st, len(d.Alphabet))
			}
			mergeS(c, rep, c05Scenarios(c.Thorough), engine.SPlan{Bounds: boundsFor(c, []int{0, 1}, []int{0, 1, 2}), Race: true, RaceMaxBound: 2, RaceProp: true})
			rep.Assumptions = []string{"'all byte strings' is not enumerable: the claim covers all inputs within one (thorough: two) field-level deviations of 22 seed messages, all truncations, three connection states; every delivery runs under the controlled scheduler so that panics in goroutines the stack starts are caught and deadlocks are detected without wall-clock time"}
			return rep
		},
	})
}
