package checks

import (
	"fmt"
	"reflect"
	"sort"
	"strings"

	"github.com/enbility/spine-go/api"
	"github.com/enbility/spine-go/internal/verifh/engine"
	"github.com/enbility/spine-go/internal/verifh/world"
	"github.com/enbility/spine-go/internal/verifrt/vtime"
	"github.com/enbility/spine-go/model"
)

// C04 — write-protected elements stay untouched and remote writes are all-or-nothing.

type c04World struct {
	w     *world.World
	a     *world.Peer
	local map[string]api.FeatureLocalInterface
	cli   map[string]*model.FeatureAddressType
}

func wcheckSpecs() []*listSpec {
	var out []*listSpec
	for _, sp := range listSpecs() {
		if sp.wcheck >= 0 && sp.hasFn && sp.item.Field(sp.wcheck).Type.Elem().Kind() == reflect.Bool && sp.keyKind == "uint" && len(sp.pay) > 0 {
			out = append(out, sp)
		}
	}
	return out
}

func newC04World(specs []*listSpec) *c04World {
	c := &c04World{w: world.New(false), local: map[string]api.FeatureLocalInterface{}, cli: map[string]*model.FeatureAddressType{}}
	e := c.w.AddLocalEntity([]uint{1}, model.EntityTypeTypeCEM, 0)
	var feats []world.FeatSpec
	for i, sp := range specs {
		c.local[sp.name] = world.AddLocalFeature(e, sp.ft, model.RoleTypeServer, world.FuncSpec{Fn: sp.fn, R: true, W: true})
		feats = append(feats, world.FeatSpec{Num: uint(i + 1), Type: sp.ft, Role: model.RoleTypeClient})
		c.cli[sp.name] = world.FAddr("dA", []uint{1}, uint(i+1))
	}
	c.a = c.w.ConnectAndAnnounce("A", "dA", []world.EntSpec{{Addr: []uint{1}, Type: model.EntityTypeTypeCEM, Feats: feats}})
	for _, sp := range specs {
		c.a.Deliver(c.a.BindCall(c.cli[sp.name], c.local[sp.name].Address(), sp.ft))
	}
	return c
}

type c04Write struct {
	items  []itemSpec
	fs     filterSpec
	elFlag bool // delete elements names the flag field instead of payload field 0
	noFn   bool // the cmd carries the filters but not the (optional) function element
}

func (u c04Write) String() string {
	s := u.fs.String() + " " + specsStr(u.items)
	if u.elFlag {
		s += " elements=flag"
	}
	if u.noFn {
		s += " cmd-without-function-element"
	}
	return s
}

func c04Writes() []c04Write {
	var ws []c04Write
	ids := []int{1, 2, 3}
	var lists [][]itemSpec
	lists = [][]itemSpec{nil}
	for _, id := range ids {
		var nx [][]itemSpec
		for _, l := range lists {
			nx = append(nx, l)
			nx = append(nx, append(append([]itemSpec{}, l...), itemSpec{id: id, pay: "2-"}))
			nx = append(nx, append(append([]itemSpec{}, l...), itemSpec{id: id, pay: "2-", flag: 't'}))
		}
		lists = nx
	}
	for _, l := range lists {
		ws = append(ws, c04Write{items: l}, c04Write{items: l, fs: filterSpec{partial: true}})
	}
	ws = append(ws, c04Write{items: []itemSpec{{pay: "2-"}}, fs: filterSpec{partial: true}}, c04Write{items: []itemSpec{{pay: "2-", flag: 't'}}, fs: filterSpec{partial: true}},
		c04Write{items: []itemSpec{{pay: "--", flag: 'f'}}, fs: filterSpec{partial: true}})
	for _, id := range ids {
		for _, it := range []itemSpec{{pay: "2-"}, {pay: "2-", flag: 't'}, {pay: "--", flag: 'f'}} {
			ws = append(ws, c04Write{items: []itemSpec{it}, fs: filterSpec{partial: true, partialSel: id}})
		}
		ws = append(ws, c04Write{fs: filterSpec{del: true, delSel: id}}, c04Write{fs: filterSpec{del: true, delSel: id, delElements: true}},
			c04Write{fs: filterSpec{del: true, delSel: id, delElements: true}, elFlag: true})
	}
	ws = append(ws, c04Write{fs: filterSpec{del: true, delElements: true}}, c04Write{fs: filterSpec{del: true, delElements: true}, elFlag: true})
	// delete elements naming only a sub-element of the payload field (value.scale ...), alone, per item, and next to a partial part
	ws = append(ws, c04Write{fs: filterSpec{del: true, delElements: true, delSub: true}})
	for _, id := range ids {
		ws = append(ws, c04Write{fs: filterSpec{del: true, delSel: id, delElements: true, delSub: true}})
	}
	// a delete filter that names neither selectors nor elements: alone, with an identifier-less item, next to a partial selector
	// (data items next to a delete filter alone, without a partial filter, are not a defined shape)
	ws = append(ws, c04Write{fs: filterSpec{del: true}}, c04Write{items: []itemSpec{{pay: "2-"}}, fs: filterSpec{del: true, partial: true}})
	for _, id := range ids {
		ws = append(ws, c04Write{items: []itemSpec{{pay: "2-"}}, fs: filterSpec{del: true, partial: true, partialSel: id}})
	}
	// one write with a delete selector and a partial selector (the two may address different elements)
	for _, ij := range [][2]int{{1, 2}, {2, 1}, {2, 3}, {3, 1}, {1, 1}} {
		ws = append(ws, c04Write{items: []itemSpec{{pay: "2-"}}, fs: filterSpec{del: true, delSel: ij[0], partial: true, partialSel: ij[1]}},
			c04Write{items: []itemSpec{{pay: "2-"}}, fs: filterSpec{del: true, delSel: ij[0], delElements: true, partial: true, partialSel: ij[1]}},
			c04Write{items: []itemSpec{{pay: "-2"}}, fs: filterSpec{del: true, delSel: ij[0], delElements: true, delSub: true, partial: true, partialSel: ij[1]}})
	}
	for _, l := range [][]itemSpec{{{id: 1, pay: "2-"}}, {{id: 2, pay: "2-"}}, {{id: 2, pay: "2-"}, {id: 3, pay: "2-", flag: 't'}}, nil} {
		ws = append(ws, c04Write{items: l, fs: filterSpec{del: true, delSel: 1, partial: true}})
	}
	// the function element of a cmd is optional next to its filters (the filters name the function themselves): the
	// selector, identifier and delete shapes once more as a peer may send them, without it
	for _, w := range ws {
		if (w.fs.partial || w.fs.del) && (w.fs.partialSel > 0 || w.fs.delSel > 0 || (w.fs.partial && len(w.items) == 1)) {
			w.noFn = true
			ws = append(ws, w)
		}
	}
	return ws
}

func c04Existing() [][]itemSpec {
	out := [][]itemSpec{nil}
	for _, id := range []int{1, 2, 3} {
		var nx [][]itemSpec
		for _, l := range out {
			nx = append(nx, l)
			for _, f := range []byte{'t', 'f', '-'} {
				nx = append(nx, append(append([]itemSpec{}, l...), itemSpec{id: id, pay: "1-", flag: f}))
			}
		}
		out = nx
	}
	return out
}

func idOf(sp *listSpec, r rec) int {
	for id := 1; id <= 3; id++ {
		want := sp.recOf(sp.build(itemSpec{id: id}))
		ok := true
		for _, k := range sp.keyNames() {
			ok = ok && r[k] == want[k]
		}
		if ok {
			return id
		}
	}
	return 0
}

func byID(sp *listSpec, l []rec) map[int]rec {
	m := map[int]rec{}
	for _, r := range l {
		m[idOf(sp, r)] = r
	}
	return m
}

func recEq(a, b rec) bool { return recsStr([]rec{a}) == recsStr([]rec{b}) }

func c04Families(thorough bool) []*engine.IFamily {
	specs := wcheckSpecs()
	writes := c04Writes()
	existing := c04Existing()
	return []*engine.IFamily{{Name: "remote-writes", Chunks: len(specs) * 8,
		Rule: fmt.Sprintf("the %d list types with a boolean writecheck field x all existing lists over identifiers {1,2,3} with flag in {true,false,absent} (%d) x %d remote writes of every shape (full, partial with identifiers, identifier-less, partial+selector, delete+selector, delete+elements (payload / flag field), delete+selector+elements, delete+partial; written items also try to set the flag), each delivered as a real write datagram from a bound client; plus the same inputs on the per-type UpdateList(remoteWrite=true); non-trivial: the write addresses at least one existing element", len(specs), len(existing), len(writes)),
		Run: func(chunk int) engine.IResult {
			var r engine.IResult
			now := staticNow
			vtime.StaticNow = &now
			defer func() { vtime.StaticNow = nil }()
			sp := specs[chunk/8]
			c := newC04World(specs)
			f := c.local[sp.name]
			flagName := sp.item.Field(sp.wcheck).Name
			payName := sp.item.Field(sp.pay[0]).Name
			fail := func(clause string, w c04Write, detail string) {
				r.NFails++
				key := fmt.Sprintf("%s | type=%s write=%s", clause, sp.name, w.fs.String())
				if w.elFlag {
					key += " elements=flag"
				}
				if !w.fs.partial && !w.fs.del {
					key = fmt.Sprintf("%s | type=%s write=full", clause, sp.name)
				}
				for _, x := range r.Fails {
					if x.Key == key {
						return
					}
				}
				r.Fails = append(r.Fails, engine.IFail{Key: key, Msg: detail, Input: sp.name + " " + w.String()})
			}
			verdicts := map[string]string{}
			for wi, w := range writes {
				if wi%8 != chunk%8 {
					continue
				}
				fp, fd, ok := sp.filters(w.fs)
				if !ok {
					continue
				}
				if w.elFlag {
					// name the flag field instead of the payload field in the elements
					e := reflect.New(sp.elT)
					fl := e.Elem().FieldByName(flagName)
					if !fl.IsValid() || fl.Kind() != reflect.Ptr {
						continue
					}
					fl.Set(reflect.New(fl.Type().Elem()))
					fv := reflect.ValueOf(fd).Elem()
					for i := 0; i < fv.NumField(); i++ {
						if fv.Field(i).Type() == reflect.PtrTo(sp.elT) {
							fv.Field(i).Set(e)
						}
					}
				}
				written := byID(sp, sp.recs(w.items))
				for _, ex := range existing {
					before := sp.recs(ex)
					bm := byID(sp, before)
					// addressed identifiers
					addr := map[int]bool{}
					switch {
					case !w.fs.partial && !w.fs.del:
						for id := range bm {
							addr[id] = true
						}
						for id := range written {
							addr[id] = true
						}
					default:
						// (a delete filter that names neither selectors nor elements addresses nothing: the update engine
						// ignores it, C02's fold says the same)
						if w.fs.del && (w.fs.delSel > 0 || w.fs.delSelPay || w.fs.delElements) {
							if w.fs.delSel > 0 {
								addr[w.fs.delSel] = true
							} else {
								for id := range bm {
									addr[id] = true
								}
							}
						}
						if w.fs.partial {
							switch {
							case w.fs.partialSel > 0:
								addr[w.fs.partialSel] = true
							case len(w.items) > 0 && w.items[0].id == 0:
								for id := range bm {
									addr[id] = true
								}
							default:
								for id := range written {
									addr[id] = true
								}
							}
						}
					}
					r.Evals++
					touches := false
					for id := range addr {
						if _, ok := bm[id]; ok {
							touches = true
						}
					}
					if touches {
						r.Nontrivial++
					}
					// install the existing list locally and deliver the write
					f.SetData(sp.fn, sp.list(ex))
					cmd := model.CmdType{}
					cmd.SetDataForFunction(sp.fn, sp.list(w.items))
					if fp != nil || fd != nil {
						if !w.noFn {
							fn := sp.fn
							cmd.Function = &fn
						}
						if fd != nil {
							cmd.Filter = append(cmd.Filter, *fd)
						}
						if fp != nil {
							cmd.Filter = append(cmd.Filter, *fp)
						}
					}
					m := c.w.Mark()
					d := c.a.Datagram(c.cli[sp.name], f.Address(), model.CmdClassifierTypeWrite, true, nil, cmd)
					if p := guard(func() { c.a.Deliver(d) }); p != nil {
						fail("a remote write panics", w, fmt.Sprintf("%v | existing=%s write=%s", p, specsStr(ex), w))
						c = newC04World(specs)
						f = c.local[sp.name]
						continue
					}
					okN, badN := countResults(c.w.Since(m), "A", uint64(*d.Header.MsgCounter))
					after, _ := sp.itemsOf(f.DataCopy(sp.fn))
					am := byID(sp, after)
					ctx := fmt.Sprintf("existing=%s write=%s\n before=%s\n after=%s result: success=%d error=%d", specsStr(ex), w, recsStr(before), recsStr(after), okN, badN)
					if okN+badN != 1 {
						fail("a write did not get exactly one result", w, ctx)
						continue
					}
					success := okN == 1
					if !success && recsStr(after) != recsStr(before) {
						fail("a write answered with an error result changed the data", w, ctx)
					}
					for id, b := range bm {
						a, present := am[id]
						if b[flagName] != "true" {
							if !present || !recEq(a, b) {
								fail("an element whose changeability flag is not true was modified or deleted", w, ctx)
							}
						}
						if present && a[flagName] != b[flagName] {
							fail("the changeability flag of an element was altered", w, ctx)
						}
						if !addr[id] && (!present || !recEq(a, b)) {
							fail("an element the write does not address was changed", w, ctx)
						}
					}
					if success {
						for id := range addr {
							b, existed := bm[id]
							if !existed {
								continue // adding unknown identifiers is left open by the statement
							}
							if b[flagName] != "true" {
								// success although an addressed element is protected: it cannot have applied all of its changes
								// (unless the write asks for nothing that would change it)
								wr, has := written[id]
								asksChange := w.fs.del || !has
								if has {
									for k, v := range wr {
										if k != flagName && b[k] != v {
											asksChange = true
										}
									}
								}
								if w.fs.partial && w.fs.partialSel == 0 && len(w.items) > 0 && w.items[0].id == 0 {
									asksChange = true
								}
								if !w.fs.partial && !w.fs.del && has && !asksChange {
									continue
								}
								if asksChange {
									fail("a write answered with success has not applied all of its changes (an addressed element is write-protected)", w, ctx)
								}
								continue
							}
							a, present := am[id]
							switch {
							case w.fs.del && !w.fs.delElements && (w.fs.delSel == id) && !(w.fs.partial && written[id] != nil):
								if present {
									fail("a write answered with success has not applied all of its changes (element not deleted)", w, ctx)
								}
							case w.fs.del && w.fs.delElements && (w.fs.delSel == 0 || w.fs.delSel == id):
								name := payName
								if w.elFlag || w.fs.delSub {
									name = "" // the flag must not change: covered above; what a sub-element delete clears is left open
								}
								if w.fs.partial && (w.fs.partialSel == id || w.fs.partialSel == 0) && len(w.items) > 0 {
									if _, rewritten := sp.recs(w.items[:1])[0][payName]; rewritten || written[id] != nil {
										name = "" // the partial part of the same write sets the field again
									}
								}
								if present && name != "" {
									if _, still := a[name]; still {
										fail("a write answered with success has not applied all of its changes (field not cleared)", w, ctx)
									}
								}
							}
							if w.fs.partial || (!w.fs.partial && !w.fs.del) {
								var src rec
								switch {
								case w.fs.partialSel == id && len(w.items) == 1:
									src = sp.recs(w.items)[0]
								case w.fs.partialSel == 0 && len(w.items) > 0 && w.items[0].id == 0 && w.fs.partial:
									src = sp.recs(w.items)[0]
								case w.fs.partialSel == 0:
									src = written[id]
								}
								if src != nil && present {
									for k, v := range src {
										if k != flagName && a[k] != v {
											fail("a write answered with success has not applied all of its changes (written field missing)", w, ctx)
										}
									}
								}
								if src == nil && !w.fs.partial && !w.fs.del && present {
									fail("a full write answered with success kept an element it does not contain", w, ctx)
								}
							}
						}
					}
					// differential: the verdict depends only on the addressed elements
					var ak []string
					for id := range addr {
						if b, ok := bm[id]; ok {
							ak = append(ak, recsStr([]rec{b}))
						}
					}
					sort.Strings(ak)
					vk := fmt.Sprintf("%d|%s", wi, strings.Join(ak, ";"))
					v := fmt.Sprint(success)
					if prev, ok := verdicts[vk]; ok && prev != v {
						fail("elements the write does not address influence whether it is accepted", w, ctx)
					}
					verdicts[vk] = v
					if len(r.Samples) < 1 && success && touches {
						r.Samples = append(r.Samples, fmt.Sprintf("%s: existing=%s write=%s -> %s", sp.name, specsStr(ex), w, recsStr(after)))
					}
				}
			}
			return r
		}}}
}

func init() {
	engine.Register(&engine.Check{
		ID:        "C04",
		Families:  func(c *engine.Ctx) []*engine.IFamily { return c04Families(c.Thorough) },
		Scenarios: func(c *engine.Ctx) []*engine.SScenario { return updateLinScenarios(true, c.Thorough) },
		Run: func(c *engine.Ctx) *engine.Report {
			rep := &engine.Report{Level: "model_checking", Coverage: map[string]any{}}
			var names []string
			for _, sp := range wcheckSpecs() {
				names = append(names, sp.name)
			}
			rep.Coverage["types_with_writecheck"] = names
			engine.RunFamilies(c, c04Families(c.Thorough), rep)
			ev, _ := rep.Coverage["evaluations"].(int64)
			nt, _ := rep.Coverage["distinct_nontrivial"].(int64)
			rep.Coverage["states"] = len(c04Existing()) * len(names)
			rep.Coverage["transitions"] = int(ev)
			rep.Coverage["traces_validated_against_impl"] = int(ev)
			_ = nt
			// the application changes the protection while a peer writes: flag, value and result stay consistent
			mergeS(c, rep, updateLinScenarios(true, c.Thorough), engine.SPlan{Bounds: boundsFor(c, []int{0, 1, 2}, []int{0, 1, 2, 3, -1})})
			rep.Assumptions = []string{"whether a write that adds an unknown identifier is accepted is left open by the statement; every other clause is checked on whatever result the stack sends"}
			return rep
		},
	})
}
