package checks

import (
	"encoding/json"
	"fmt"
	"math"
	"strconv"
	"strings"
	"time"

	rt "github.com/enbility/spine-go/internal/verifrt"

	"github.com/enbility/spine-go/internal/verifh/engine"
	"github.com/enbility/spine-go/internal/verifrt/vtime"
	"github.com/enbility/spine-go/model"
)

// C19 — numeric and temporal conversions are exact within their declared precision.

func magBucket(v float64) string {
	a := math.Abs(v)
	if a < 1 {
		return "<1"
	}
	return fmt.Sprintf("1e%d", int(math.Floor(math.Log10(a))))
}

func c19Families(thorough bool) []*engine.IFamily {
	K := 200000
	chunks := 64
	if thorough {
		K = 5000000
		chunks = 256
	}
	scaled := &engine.IFamily{Name: "scaled-decimals", Chunks: chunks,
		Rule: fmt.Sprintf("all k*10^-d, 0<=d<=4, |k|<=%d, both signs; v is the float64 nearest to the decimal; non-trivial: d>0 and k not a multiple of 10 (the representation needs d decimals)", K),
		Run: func(chunk int) engine.IResult {
			var r engine.IResult
			per := (2*K + 1 + chunks - 1) / chunks
			lo := -K + chunk*per
			hi := lo + per
			if hi > K+1 {
				hi = K + 1
			}
			for k := lo; k < hi; k++ {
				for d := 0; d <= 4; d++ {
					dec := strconv.Itoa(k)
					if d > 0 {
						neg := k < 0
						s := strconv.Itoa(abs(k))
						for len(s) <= d {
							s = "0" + s
						}
						dec = s[:len(s)-d] + "." + s[len(s)-d:]
						if neg {
							dec = "-" + dec
						}
					}
					v, _ := strconv.ParseFloat(dec, 64)
					r.Evals++
					if d > 0 && k%10 != 0 {
						r.Nontrivial++
					}
					back := model.NewScaledNumberType(v).GetValue()
					if math.Abs(back-v) > 1e-9*math.Max(1, math.Abs(v)) {
						r.NFails++
						if len(r.Fails) < 3 {
							r.Fails = append(r.Fails, engine.IFail{Key: fmt.Sprintf("a decimal with at most four fractional digits does not convert back to itself | decimals=%d", d),
								Msg: fmt.Sprintf("NewScaledNumberType(%s).GetValue() = %v", dec, back), Input: dec})
						}
					}
					if len(r.Samples) < 1 && d == 2 && k%10 != 0 {
						r.Samples = append(r.Samples, fmt.Sprintf("%s -> %v", dec, back))
					}
				}
			}
			return r
		}}
	grid := &engine.IFamily{Name: "scaled-magnitudes", Chunks: 57,
		Rule: "mantissa patterns {1, 1+2^-j, 2-2^-j, m/10^d (d<=6, structured m)} x decimal exponents -10..46 (binary), |v|<1e14, both signs; non-trivial: v has a fractional part",
		Run: func(chunk int) engine.IResult {
			var r engine.IResult
			e := chunk - 10
			var mant []float64
			mant = append(mant, 1)
			for j := 1; j <= 52; j++ {
				mant = append(mant, 1+math.Ldexp(1, -j), 2-math.Ldexp(1, -j))
			}
			for d := 1; d <= 6; d++ {
				p := math.Pow(10, float64(d))
				for _, m := range []float64{1, 3, 7, 9, 11, 29, 57, 99, 101, 435, 999, 1005, 12345, 99999, 123456, 999999} {
					if m < p*10 {
						mant = append(mant, m/p)
					}
				}
			}
			for _, m := range mant {
				for _, sgn := range []float64{1, -1} {
					v := sgn * math.Ldexp(m, e)
					if math.Abs(v) >= 1e14 {
						continue
					}
					r.Evals++
					if v != math.Trunc(v) {
						r.Nontrivial++
					}
					back := model.NewScaledNumberType(v).GetValue()
					if !(math.Abs(back-v) <= 1e-4) {
						r.NFails++
						if len(r.Fails) < 2 {
							r.Fails = append(r.Fails, engine.IFail{Key: "a number below 1e14 does not convert to within 0.0001 of itself | magnitude=" + magBucket(v),
								Msg: fmt.Sprintf("NewScaledNumberType(%v).GetValue() = %v (difference %g)", v, back, back-v), Input: strconv.FormatFloat(v, 'g', -1, 64)})
						}
					}
					if len(r.Samples) < 1 && v != math.Trunc(v) {
						r.Samples = append(r.Samples, fmt.Sprintf("%v -> %v", v, back))
					}
				}
			}
			return r
		}}
	N := 1000000
	if thorough {
		N = 40000000
	}
	dur := &engine.IFamily{Name: "durations", Chunks: chunks,
		Rule: fmt.Sprintf("all n*100ms for n<=%d, then strides through days, months and years (every 100ms offset 0..9 at each stride point); non-trivial: not a whole number of seconds or more than one unit in the textual form", N),
		Run: func(chunk int) engine.IResult {
			var r engine.IResult
			check := func(d time.Duration) {
				r.Evals++
				if d%time.Second != 0 || d > time.Minute {
					r.Nontrivial++
				}
				dt := model.NewDurationType(d)
				back, err := dt.GetTimeDuration()
				if err != nil || back != d {
					r.NFails++
					// input class by an implementation-independent predicate: the textual period type
					// holds each unit as 16-bit tenths (at most 3276 hours, else at most 3276 days)
					class := "days>=3277"
					if d < 3277*time.Hour {
						class = "hours<3277"
					} else if d < 3277*24*time.Hour {
						class = "days<3277"
					}
					if len(r.Fails) < 2 {
						r.Fails = append(r.Fails, engine.IFail{Key: "a duration that is a multiple of 100 ms does not survive the textual form | " + class,
							Msg: fmt.Sprintf("NewDurationType(%v) = %q -> %v (%v)", d, string(*dt), back, err), Input: d.String()})
					}
				}
				if len(r.Samples) < 1 && d > time.Hour {
					r.Samples = append(r.Samples, fmt.Sprintf("%v -> %s", d, string(*dt)))
				}
			}
			per := (N + chunks - 1) / chunks
			for n := chunk * per; n < (chunk+1)*per && n <= N; n++ {
				check(time.Duration(n) * 100 * time.Millisecond)
			}
			// strides: chunk c covers stride points c, c+chunks, ...
			for i := chunk; i < 4000; i += chunks {
				base := time.Duration(i)*6*time.Hour + time.Duration(i%7)*time.Minute + time.Duration(i%11)*time.Second // up to 1000 days
				for off := 0; off < 10; off++ {
					check(base + time.Duration(off)*100*time.Millisecond)
				}
				base = time.Duration(i) * 24 * time.Hour * 3 // up to ~33 years
				for off := 0; off < 10; off++ {
					check(base + time.Duration(off)*100*time.Millisecond)
				}
			}
			return r
		}}
	// the same durations in the other textual forms xs:duration allows (what a peer may send): one unit only
	texts := &engine.IFamily{Name: "duration-texts", Chunks: 4,
		Rule: "durations written with a single unit, as a peer may send them: PT<n>S and PT<n>.<t>S for n<=100000 (every n up to 4000, then steps), PT<n>M for n<=50000, PT<n>H for n<=10000, P<n>D for n<=3000, each also negative; read with DurationType.GetTimeDuration and as the relative end time of a time period; non-trivial: all",
		Run: func(chunk int) engine.IResult {
			var r engine.IResult
			check := func(text string, want time.Duration) {
				for _, sign := range []string{"", "-"} {
					t, w := sign+text, want
					if sign == "-" {
						w = -want
					}
					r.Evals++
					r.Nontrivial++
					dt := model.DurationType(t)
					got, err := dt.GetTimeDuration()
					a := model.AbsoluteOrRelativeTimeType(t)
					got2, err2 := a.GetTimeDuration()
					if err != nil || got != w || err2 != nil || got2 != w {
						r.NFails++
						if len(r.Fails) < 3 {
							unit := text[len(text)-1:]
							r.Fails = append(r.Fails, engine.IFail{Key: "a duration text with a single unit is not read as that duration | unit=" + unit,
								Msg: fmt.Sprintf("%q -> %v (%v) / as relative time %v (%v), want %v", t, got, err, got2, err2, w), Input: t})
						}
					}
				}
			}
			step := func(n int) int {
				if n < 4000 {
					return 1
				}
				return 1 + n/97
			}
			switch chunk {
			case 0:
				for n := 1; n <= 100000; n += step(n) {
					check(fmt.Sprintf("PT%dS", n), time.Duration(n)*time.Second)
					check(fmt.Sprintf("PT%d.%dS", n, n%10), time.Duration(n)*time.Second+time.Duration(n%10)*100*time.Millisecond)
				}
			case 1:
				for n := 1; n <= 50000; n += step(n) {
					check(fmt.Sprintf("PT%dM", n), time.Duration(n)*time.Minute)
				}
			case 2:
				for n := 1; n <= 10000; n += step(n) {
					check(fmt.Sprintf("PT%dH", n), time.Duration(n)*time.Hour)
				}
			case 3:
				for n := 1; n <= 3000; n += step(n) {
					check(fmt.Sprintf("P%dD", n), time.Duration(n)*24*time.Hour)
				}
			}
			if len(r.Samples) == 0 {
				r.Samples = []string{"PT3600S -> 1h0m0s"}
			}
			return r
		}}
	inst := &engine.IFamily{Name: "instants", Chunks: chunks,
		Rule: "every whole second of a dense week (2024-02-26..2024-03-03, includes Feb 29) in four locations; every hour of that week in every zone offset from -14:00 to +14:00 in quarter hours; for every year 1..9999 the first and last second of every month and of 29 February; non-trivial: all (each exercises the textual form)",
		Run: func(chunk int) engine.IResult {
			var r engine.IResult
			// the same instant expressed in other locations (a time.Time carries one) is the same instant
			zones := []*time.Location{time.UTC, time.FixedZone("+02:00", 2*3600), time.FixedZone("-05:00", -5*3600), time.FixedZone("+05:30", 5*3600+1800)}
			check1 := func(t time.Time, zone string) {
				r.Evals++
				r.Nontrivial++
				a := model.NewAbsoluteOrRelativeTimeTypeFromTime(t)
				back, err := a.GetTime()
				dt := model.NewDateTimeTypeFromTime(t)
				back2, err2 := dt.GetTime()
				if err != nil || !back.Equal(t) || err2 != nil || !back2.Equal(t) {
					r.NFails++
					if len(r.Fails) < 2 {
						r.Fails = append(r.Fails, engine.IFail{Key: fmt.Sprintf("an instant with whole seconds does not survive the textual form | year-digits=%d zone=%s", len(strconv.Itoa(t.UTC().Year())), zone),
							Msg: fmt.Sprintf("%v -> %q -> %v (%v); DateTimeType %q -> %v (%v)", t, string(*a), back, err, string(*dt), back2, err2), Input: t.Format(time.RFC3339)})
					}
				}
			}
			check := func(t time.Time) {
				for i, z := range zones {
					// (years 1 and 9999 stay in UTC: shifted wall clocks would leave the four-digit year range)
					if i > 0 && (t.Year() <= 1 || t.Year() >= 9999) {
						continue
					}
					check1(t.In(z), z.String())
				}
				if len(r.Samples) < 1 {
					r.Samples = append(r.Samples, fmt.Sprintf("%v -> %s", t.Format(time.RFC3339), string(*model.NewAbsoluteOrRelativeTimeTypeFromTime(t))))
				}
			}
			start := time.Date(2024, 2, 26, 0, 0, 0, 0, time.UTC)
			week := 7 * 24 * 3600
			per := (week + chunks - 1) / chunks
			for s := chunk * per; s < (chunk+1)*per && s < week; s++ {
				check(start.Add(time.Duration(s) * time.Second))
			}
			// every zone offset of the clock (-14:00 .. +14:00 in quarter hours) for every hour of the dense week
			if chunk == 0 {
				for off := -14 * 4; off <= 14*4; off++ {
					sign, ab := "+", off
					if off < 0 {
						sign, ab = "-", -off
					}
					z := time.FixedZone(fmt.Sprintf("%s%02d:%02d", sign, ab/4, (ab%4)*15), off*900)
					for h := 0; h < 7*24; h++ {
						check1(start.Add(time.Duration(h)*time.Hour+time.Duration(h%60)*time.Minute+time.Duration((7*h)%60)*time.Second).In(z), z.String())
					}
				}
			}
			for y := 1 + chunk; y <= 9999; y += chunks {
				for m := time.January; m <= time.December; m++ {
					first := time.Date(y, m, 1, 0, 0, 0, 0, time.UTC)
					check(first)
					check(first.AddDate(0, 1, 0).Add(-time.Second))
				}
				if feb29 := time.Date(y, 2, 29, 12, 30, 59, 0, time.UTC); feb29.Month() == time.February {
					check(feb29)
				}
			}
			return r
		}}
	periodF := &engine.IFamily{Name: "time-period-relative-end", Chunks: 16,
		Rule: "relative end times D in {1s..3h in steps, 1d, 30d, 365d} decoded at t1 and read at t1+delta, delta in {0,1,59,60,3599,86400}s with delta<=D, clock stepped between decode and read; also encode at t1+delta; non-trivial: delta>0",
		Run: func(chunk int) engine.IResult {
			var r engine.IResult
			var ds []time.Duration
			for s := 1; s <= 10800; s += 1 + s/7 {
				ds = append(ds, time.Duration(s)*time.Second)
			}
			ds = append(ds, 24*time.Hour, 30*24*time.Hour, 365*24*time.Hour)
			t1 := time.Date(2024, 3, 1, 12, 0, 0, 0, time.UTC)
			defer func() { vtime.StaticNow = nil }()
			for i, d := range ds {
				if i%16 != chunk {
					continue
				}
				for _, delta := range []time.Duration{0, time.Second, 59 * time.Second, 60 * time.Second, 3599 * time.Second, 86400 * time.Second} {
					if delta > d {
						continue
					}
					r.Evals++
					if delta > 0 {
						r.Nontrivial++
					}
					now := t1
					vtime.StaticNow = &now
					js := fmt.Sprintf(`{"endTime":%q}`, string(*model.NewDurationType(d)))
					var tp model.TimePeriodType
					err := json.Unmarshal([]byte(js), &tp)
					now = t1.Add(delta)
					got, err2 := tp.GetDuration()
					out, err3 := json.Marshal(tp)
					var back struct {
						EndTime string `json:"endTime"`
					}
					json.Unmarshal(out, &back)
					et := model.AbsoluteOrRelativeTimeType(back.EndTime)
					enc, err4 := et.GetTimeDuration()
					if err != nil || err2 != nil || err3 != nil || err4 != nil || got != d-delta || enc != d-delta {
						r.NFails++
						if len(r.Fails) < 2 {
							r.Fails = append(r.Fails, engine.IFail{Key: "a relative end time is not read back as the remaining duration | hours=" + magBucket(d.Hours()),
								Msg: fmt.Sprintf("D=%v delta=%v: GetDuration=%v re-encoded=%v (%s) errors=%v %v %v %v", d, delta, got, enc, out, err, err2, err3, err4), Input: fmt.Sprintf("%v/%v", d, delta)})
						}
					}
					if len(r.Samples) < 1 && delta > 0 {
						r.Samples = append(r.Samples, fmt.Sprintf("%s read %v later -> %v", js, delta, got))
					}
				}
			}
			return r
		}}
	reuse := &engine.IFamily{Name: "time-period-reused-destination", Chunks: 1,
		Rule: "every ordered pair (a, b) of 9 period texts (relative/absolute start and end, each present or absent, empty object) decoded one after the other into the SAME destination - a variable, and the non-nil timePeriod pointer of a limit and of a setpoint - and read 0 s and 61 s later: must read exactly like b decoded into a fresh destination; non-trivial: a != b",
		Run: func(chunk int) engine.IResult {
			var r engine.IResult
			texts := []string{`{"endTime":"PT1M"}`, `{"endTime":"PT2H"}`, `{"startTime":"PT5S","endTime":"PT1M"}`, `{"startTime":"PT0S","endTime":"P1D"}`,
				`{"startTime":"2024-03-01T12:00:00Z","endTime":"2024-03-01T13:00:00Z"}`, `{"endTime":"2024-03-01T13:00:00Z"}`, `{"startTime":"PT5S"}`, `{"startTime":"2024-03-01T12:00:30Z"}`, `{}`}
			t1 := time.Date(2024, 3, 1, 12, 0, 0, 0, time.UTC)
			defer func() { vtime.StaticNow = nil }()
			read := func(tp *model.TimePeriodType, now *time.Time) string {
				var out []string
				for _, delta := range []time.Duration{0, 61 * time.Second} {
					*now = t1.Add(delta)
					if tp == nil {
						out = append(out, "nil")
						continue
					}
					d, e := tp.GetDuration()
					js, e2 := json.Marshal(tp)
					out = append(out, fmt.Sprintf("%v/%v/%s/%v", d, e != nil, js, e2 != nil))
				}
				return strings.Join(out, " ; ")
			}
			for _, dest := range []string{"variable", "limit.timePeriod", "setpoint.timePeriod"} {
				for _, a := range texts {
					for _, b := range texts {
						r.Evals++
						if a != b {
							r.Nontrivial++
						}
						now := t1
						vtime.StaticNow = &now
						var used, fresh string
						var errs []error
						switch dest {
						case "variable":
							var v, f model.TimePeriodType
							errs = append(errs, json.Unmarshal([]byte(a), &v), json.Unmarshal([]byte(b), &v), json.Unmarshal([]byte(b), &f))
							used, fresh = read(&v, &now), read(&f, &now)
						case "limit.timePeriod":
							var v, f model.LoadControlLimitDataType
							errs = append(errs, json.Unmarshal([]byte(`{"timePeriod":`+a+`}`), &v), json.Unmarshal([]byte(`{"timePeriod":`+b+`}`), &v), json.Unmarshal([]byte(`{"timePeriod":`+b+`}`), &f))
							used, fresh = read(v.TimePeriod, &now), read(f.TimePeriod, &now)
						default:
							var v, f model.SetpointDataType
							errs = append(errs, json.Unmarshal([]byte(`{"timePeriod":`+a+`}`), &v), json.Unmarshal([]byte(`{"timePeriod":`+b+`}`), &v), json.Unmarshal([]byte(`{"timePeriod":`+b+`}`), &f))
							used, fresh = read(v.TimePeriod, &now), read(f.TimePeriod, &now)
						}
						for _, e := range errs {
							if e != nil {
								used += " error " + e.Error()
							}
						}
						if used != fresh {
							r.NFails++
							if len(r.Fails) < 2 {
								r.Fails = append(r.Fails, engine.IFail{Key: "a period decoded into a destination that held another period does not read like the same text decoded into a fresh destination | destination=" + dest,
									Msg: fmt.Sprintf("first %s then %s: reads %s, fresh reads %s", a, b, used, fresh), Input: dest + " " + a + " " + b})
							}
						}
						if len(r.Samples) < 1 && a != b {
							r.Samples = append(r.Samples, fmt.Sprintf("%s after %s -> %s", b, a, used))
						}
					}
				}
			}
			return r
		}}
	return []*engine.IFamily{scaled, grid, dur, texts, inst, periodF, reuse}
}

func abs(k int) int {
	if k < 0 {
		return -k
	}
	return k
}

// c19Conversions: one pass over every conversion of the property for the given seed value; returns a digest.
func c19Conversions(k int) string {
	var out []string
	for _, v := range []float64{float64(k) + 0.29, -float64(k) * 1.5, float64(k) * 1000, 0.0001 * float64(k)} {
		out = append(out, strconv.FormatFloat(model.NewScaledNumberType(v).GetValue(), 'g', -1, 64))
	}
	for _, d := range []time.Duration{time.Duration(k) * time.Second, time.Duration(k)*time.Hour + 100*time.Millisecond, time.Duration(k) * 36 * time.Hour} {
		dt := model.NewDurationType(d)
		back, err := dt.GetTimeDuration()
		out = append(out, fmt.Sprint(*dt, back, err))
	}
	t := rt.Epoch.Add(time.Duration(k) * time.Hour).UTC()
	a := model.NewAbsoluteOrRelativeTimeTypeFromTime(t)
	bt, err := a.GetTime()
	out = append(out, fmt.Sprint(*a, bt.UTC().Format(time.RFC3339), err))
	r := model.NewAbsoluteOrRelativeTimeTypeFromDuration(time.Duration(k) * time.Minute)
	if rd, err := r.GetDurationType(); err == nil && rd != nil {
		out = append(out, fmt.Sprint(*r, *rd))
	} else {
		out = append(out, fmt.Sprint(*r, err))
	}
	var tp model.TimePeriodType
	if err := json.Unmarshal([]byte(fmt.Sprintf(`{"endTime":%q}`, string(*model.NewDurationType(time.Duration(k) * time.Minute)))), &tp); err == nil {
		d, err := tp.GetDuration()
		js, _ := json.Marshal(&tp)
		out = append(out, fmt.Sprint(d, err, string(js)))
	}
	return strings.Join(out, "|")
}

func c19Scenarios() []*engine.SScenario {
	return []*engine.SScenario{{Name: "three goroutines convert unrelated values at once", Run: func(cfg rt.Config) rt.Outcome {
		var viol []string
		res := rt.Execute(cfg, func() {
			want := []string{c19Conversions(3), c19Conversions(7), c19Conversions(11)}
			got := make([]string, 3)
			rt.BeginExplore()
			for i, k := range []int{3, 7, 11} {
				i, k := i, k
				rt.Go(func() {
					rt.Yield()
					got[i] = c19Conversions(k)
				})
			}
			rt.WaitIdle()
			rt.JoinFinished()
			for i := range want {
				if got[i] != want[i] {
					viol = append(viol, fmt.Sprintf("a conversion gives another result when other goroutines convert at the same time | alone=%s concurrent=%s", want[i], got[i]))
				}
			}
		})
		return rt.Outcome{Res: res, Violations: append(viol, panicsAndDeadlocks(res)...), Digest: "ok"}
	}}}
}

func init() {
	engine.Register(&engine.Check{
		ID:        "C19",
		NeedsRace: true,
		Families:  func(c *engine.Ctx) []*engine.IFamily { return c19Families(c.Thorough) },
		Scenarios: func(c *engine.Ctx) []*engine.SScenario { return c19Scenarios() },
		Run: func(c *engine.Ctx) *engine.Report {
			rep := &engine.Report{Level: "exploration", Coverage: map[string]any{}}
			engine.RunFamilies(c, c19Families(c.Thorough), rep)
			ev, _ := rep.Coverage["evaluations"].(int64)
			rep.Coverage["states"] = 0
			rep.Coverage["transitions"] = int(ev)
			// the conversions are pure functions of their argument also when several goroutines convert
			// unrelated values at once (no shared scratch state): race build on every schedule
			mergeS(c, rep, c19Scenarios(), engine.SPlan{Bounds: []int{0, 1}, Race: true, RaceProp: true})
			rep.Assumptions = []string{"the infinite input sets of the property are covered on the stated finite grids only; the clock is a settable shim (vtime.StaticNow) so that relative-time conversions are exactly predictable"}
			return rep
		},
	})
}
