package checks

import (
	"fmt"
	"sort"
	"strings"

	rt "github.com/enbility/spine-go/internal/verifrt"

	"github.com/enbility/spine-go/internal/verifh/engine"
	"github.com/enbility/spine-go/internal/verifh/world"
)

// Message-level linearizability scenarios. Each thread delivers its messages (or
// performs its local calls) in order while the other threads do the same; every
// message is processed by the real handlers. Oracle: what the run leaves behind
// — the multiset of datagrams written per connection (results matched to their
// requests by msgCounterReference), the registries, trees and data (regWorld.dump)
// and how a list of sequential probe operations is served afterwards — must be
// what SOME sequential order of the same messages (each thread's order kept)
// produces on a fresh instance of the same implementation. The properties state
// registry contents and answers "at the moment a message is processed"; an outcome
// that no processing order explains violates them whatever the exact wording.

type linOp struct{ thread, idx int }

func interleavings(threads [][]string) [][]linOp {
	var out [][]linOp
	pos := make([]int, len(threads))
	var cur []linOp
	var rec func()
	rec = func() {
		done := true
		for t := range threads {
			if pos[t] < len(threads[t]) {
				done = false
				cur = append(cur, linOp{t, pos[t]})
				pos[t]++
				rec()
				pos[t]--
				cur = cur[:len(cur)-1]
			}
		}
		if done {
			out = append(out, append([]linOp{}, cur...))
		}
	}
	rec()
	return out
}

func outsSig(outs []world.Out) string {
	var s []string
	for _, o := range outs {
		// the payload of a notification is not part of the signature: the stack reads the data to
		// announce after the update was stored, so under concurrency a notification may already carry
		// the other thread's change as well (the subscriber still ends up with the final data)
		s = append(s, o.String())
	}
	sort.Strings(s)
	return strings.Join(s, " ; ")
}

// stripData removes the data section of a dump (see linScenarioOpt).
func stripData(d string) string {
	i := strings.Index(d, " data=[")
	j := strings.Index(d, "] local=")
	if i < 0 || j < i {
		return d
	}
	return d[:i] + d[j+1:]
}

func stripTimers(d string) string {
	i := strings.Index(d, " timers=[")
	if i < 0 {
		return d
	}
	j := strings.Index(d[i:], "]")
	return d[:i] + d[i+j+1:]
}

func linScenario(prelude []string, threads [][]string, after []string) *engine.SScenario {
	return linScenarioOpt(prelude, threads, after, false)
}

// linScenarioOpt: with samePeerTeardown set, one thread removes a connection while the other thread is the
// reader of that very connection, still processing a message. What the in-flight message is answered and
// whether a write is still applied is left open then (the message may find half of the peer's state gone);
// what counts is the teardown itself: afterwards registries, bookkeeping and the service to the other peer are
// those of a sequential execution, and nothing is written to the removed connection during the probes.
func linScenarioOpt(prelude []string, threads [][]string, after []string, samePeerTeardown bool) *engine.SScenario {
	var parts []string
	for _, t := range threads {
		parts = append(parts, strings.Join(t, ","))
	}
	name := "lin: " + strings.Join(parts, " || ")
	if len(after) > 0 {
		name += " ; then " + strings.Join(after, ",")
	}
	ils := interleavings(threads)
	return &engine.SScenario{Name: name, Run: func(cfg rt.Config) rt.Outcome {
		var viol []string
		var dig string
		res := rt.Execute(cfg, func() {
			build := func() (*regWorld, [][]func()) {
				rw := newRegWorld(false, false)
				rt.WaitIdle()
				for _, op := range prelude {
					if strings.HasPrefix(op, "lupd") || strings.HasPrefix(op, "ldel") {
						rw.prepare(op)()
						rt.WaitIdle()
						continue
					}
					rw.apply(op, false)
				}
				steps := make([][]func(), len(threads))
				for t, ops := range threads {
					for _, op := range ops {
						steps[t] = append(steps[t], rw.prepare(op))
					}
				}
				return rw, steps
			}
			finish := func(rw *regWorld, mark world.Mark) string {
				during := outsSig(rw.w.Since(mark))
				d, _ := rw.dump()
				if len(after) == 0 {
					return "written={" + during + "} state={" + stripTimers(d) + "} probes={}"
				}
				// the state the concurrent phase left behind counts as well as the state after the probes
				// (a probe may overwrite what a lost update would have left)
				m2 := rw.w.Mark()
				for _, op := range after {
					rw.prepare(op)()
					rt.WaitIdle()
				}
				probes := outsStr(rw.w.Since(m2))
				d2, _ := rw.dump()
				if samePeerTeardown {
					return "written={(left open)} state={" + stripData(stripTimers(d)) + " ;; after the probes: " + stripData(stripTimers(d2)) + "} probes={" + probes + "}"
				}
				return "written={" + during + "} state={" + stripTimers(d) + " ;; after the probes: " + stripTimers(d2) + "} probes={" + probes + "}"
			}
			var refs []string
			for _, il := range ils {
				rw, steps := build()
				mark := rw.w.Mark()
				for _, o := range il {
					steps[o.thread][o.idx]()
					rt.WaitIdle()
				}
				refs = append(refs, finish(rw, mark))
			}
			rw, steps := build()
			mark := rw.w.Mark()
			rt.BeginExplore()
			for t := range steps {
				mine := steps[t]
				rt.Go(func() {
					for _, st := range mine {
						st()
					}
				})
			}
			rt.WaitIdle()
			rt.JoinFinished()
			got := finish(rw, mark)
			ok := false
			for i, r := range refs {
				if r == got {
					ok = true
					dig = fmt.Sprintf("as sequential order %d of %d", i, len(refs))
					break
				}
			}
			if !ok {
				// name the nearest sequential outcome by its first differing section
				viol = append(viol, "no sequential order of the messages explains the outcome | "+linDiff(got, refs))
				dig = got
			}
		})
		return rt.Outcome{Res: res, Violations: append(viol, panicsAndDeadlocks(res)...), Digest: dig}
	}}
}

func linDiff(got string, refs []string) string {
	sec := func(s, name string) string {
		i := strings.Index(s, name+"={")
		if i < 0 {
			return ""
		}
		rest := s[i+len(name)+2:]
		for _, nx := range []string{"} state={", "} probes={"} {
			if j := strings.Index(rest, nx); j >= 0 && name != "probes" {
				return rest[:j]
			}
		}
		return strings.TrimSuffix(rest, "}")
	}
	best, bestN := "", -1
	for _, r := range refs {
		n := 0
		var d []string
		for _, name := range []string{"written", "state", "probes"} {
			if g, x := sec(got, name), sec(r, name); g == x {
				n++
			} else {
				d = append(d, fmt.Sprintf("%s: concurrent=[%s] sequential=[%s]", name, g, x))
			}
		}
		if n > bestN {
			bestN, best = n, strings.Join(d, " / ")
		}
	}
	return best
}

// updateLinScenarios: read-modify-write of one function's data from several goroutines (two local
// updates, a local update and a bound peer's partial write). A stored update may not disappear, and a
// write's result must match what happened to the data: both follow from comparing with the sequential orders.
func updateLinScenarios(forWriteProtection, thorough bool) []*engine.SScenario {
	pre := []string{"bind:A:e1f1:L1lc:lc:d", "sub:B:e1f1:L1lc:lc:d"}
	if forWriteProtection {
		scs := []*engine.SScenario{
			// the application protects limit 1 while the bound peer writes it
			linScenario(pre, [][]string{{"lupd:L1lc:1:1:f"}, {"pwrite:A:e1f1:L1lc:1:5"}}, nil),
			// ... and releases the protection of one limit while the peer writes another
			linScenario(append(append([]string{}, pre...), "lupd:L1lc:2:1:f"), [][]string{{"lupd:L1lc:2:1:t"}, {"pwrite:A:e1f1:L1lc:1:5"}}, []string{"pwrite:A:e1f1:L1lc:2:7"}),
		}
		if thorough {
			scs = append(scs, linScenario(pre, [][]string{{"lupd:L1lc:1:1:f", "lupd:L1lc:1:1:t"}, {"pwrite:A:e1f1:L1lc:1:5", "pwrite:A:e1f1:L1lc:2:6"}}, nil))
		}
		return scs
	}
	scs := []*engine.SScenario{
		linScenario(pre, [][]string{{"lupd:L1lc:3:5:t"}, {"lupd:L1lc:4:6:t"}}, nil),
		linScenario(pre, [][]string{{"lupd:L1lc:3:5:t"}, {"ldel:L1lc:1"}}, nil),
		linScenario(pre, [][]string{{"lupd:L1lc:3:5:t"}, {"pwrite:A:e1f1:L1lc:2:7"}}, nil),
	}
	if thorough {
		scs = append(scs,
			linScenario(pre, [][]string{{"lupd:L1lc:3:5:t", "ldel:L1lc:3"}, {"lupd:L1lc:1:6:n"}}, nil),
			linScenario(pre, [][]string{{"lupd:L1lc:3:5:t"}, {"ldel:L1lc:2"}, {"pwrite:A:e1f1:L1lc:1:7"}}, nil))
	}
	return scs
}
