package checks

import (
	"encoding/json"
	"fmt"
	"reflect"
	"strings"
	"time"

	rt "github.com/enbility/spine-go/internal/verifrt"

	"github.com/enbility/spine-go/api"
	"github.com/enbility/spine-go/internal/verifh/engine"
	"github.com/enbility/spine-go/internal/verifh/refl"
	"github.com/enbility/spine-go/internal/verifh/world"
	"github.com/enbility/spine-go/internal/verifrt/vtime"
	"github.com/enbility/spine-go/model"
	"github.com/enbility/spine-go/spine"
)

// C11 — data handed to the application is a stable snapshot.

type snap struct {
	what  string
	obj   any
	photo string
}

type c11World struct {
	w      *world.World
	a      *world.Peer
	sp     *listSpec
	srv    api.FeatureLocalInterface  // local server feature holding the function (read/write)
	cli    api.FeatureLocalInterface  // local client feature of the same type
	rsrv   api.FeatureRemoteInterface // A's server feature
	rcli   *model.FeatureAddressType  // A's client feature (bound to srv)
	events []any
}

type c11Handler struct{ c *c11World }

func (h *c11Handler) HandleEvent(p api.EventPayload) {
	if p.EventType == api.EventTypeDataChange && p.Function == h.c.sp.fn {
		h.c.addEvent(p.Data)
	}
}

//go:norace
func (c *c11World) addEvent(d any) { c.events = append(c.events, d) }

//go:norace
func (c *c11World) lastEvent() any {
	if len(c.events) == 0 {
		return nil
	}
	return c.events[len(c.events)-1]
}

func newC11World(sp *listSpec) *c11World {
	c := &c11World{w: world.New(false), sp: sp}
	_ = spine.Events.Subscribe(&c11Handler{c})
	e := c.w.AddLocalEntity([]uint{1}, model.EntityTypeTypeCEM, 0)
	c.srv = world.AddLocalFeature(e, sp.ft, model.RoleTypeServer, world.FuncSpec{Fn: sp.fn, R: true, W: true})
	c.cli = world.AddLocalFeature(e, sp.ft, model.RoleTypeClient)
	c.a = c.w.ConnectAndAnnounce("A", "dA", []world.EntSpec{{Addr: []uint{1}, Type: model.EntityTypeTypeCEM, Feats: []world.FeatSpec{
		{Num: 1, Type: sp.ft, Role: model.RoleTypeClient},
		{Num: 2, Type: sp.ft, Role: model.RoleTypeServer, Funcs: []world.FuncSpec{{Fn: sp.fn, R: true, W: true}}},
	}}})
	c.rcli = world.FAddr("dA", []uint{1}, 1)
	c.rsrv = c.a.Dev.FeatureByAddress(world.FAddr("dA", []uint{1}, 2))
	c.a.Deliver(c.a.BindCall(c.rcli, c.srv.Address(), sp.ft))
	rt.WaitIdle()
	return c
}

func (c *c11World) cmd(items []itemSpec, fp, fd *model.FilterType) model.CmdType {
	cmd := model.CmdType{}
	cmd.SetDataForFunction(c.sp.fn, c.sp.list(items))
	if fp != nil || fd != nil {
		fn := c.sp.fn
		cmd.Function = &fn
		if fd != nil {
			cmd.Filter = append(cmd.Filter, *fd)
		}
		if fp != nil {
			cmd.Filter = append(cmd.Filter, *fp)
		}
	}
	return cmd
}

// applyVia performs one update through the given path; returns "ok", "rejected" or "n/a".
func (c *c11World) applyVia(path string, u updCase) string {
	fp, fd, ok := c.sp.filters(u.fs)
	if !ok {
		return "n/a"
	}
	switch path {
	case "local":
		if err := c.srv.UpdateData(c.sp.fn, c.sp.list(u.items), fp, fd); err != nil {
			return "rejected"
		}
	case "write":
		m := c.w.Mark()
		d := c.a.Datagram(c.rcli, c.srv.Address(), model.CmdClassifierTypeWrite, true, nil, c.cmd(u.items, fp, fd))
		c.a.Deliver(d)
		rt.WaitIdle()
		if okN, _ := countResults(c.w.Since(m), "A", uint64(*d.Header.MsgCounter)); okN != 1 {
			return "rejected"
		}
	case "notify", "reply":
		cl := model.CmdClassifierTypeNotify
		var ref *model.MsgCounterType
		if path == "reply" {
			cl = model.CmdClassifierTypeReply
			ref = ptrCtr(1)
		}
		d := c.a.Datagram(world.FAddr("dA", []uint{1}, 2), c.cli.Address(), cl, false, ref, c.cmd(u.items, fp, fd))
		c.a.Deliver(d)
		rt.WaitIdle()
	case "remote-nopersist":
		if _, err := c.rsrv.UpdateData(false, c.sp.fn, c.sp.list(u.items), fp, fd); err != nil {
			return "rejected"
		}
	}
	rt.WaitIdle()
	return "ok"
}

func c11Menu(sp *listSpec) []updCase {
	m := []updCase{
		{[]itemSpec{{id: 1, pay: "22", flag: 't'}, {id: 2, pay: "22", flag: 't'}}, filterSpec{}},
		{[]itemSpec{{id: 1, pay: "2-"}}, filterSpec{partial: true}},
		{[]itemSpec{{id: 3, pay: "2-"}}, filterSpec{partial: true}},
		{[]itemSpec{{pay: "-2"}}, filterSpec{partial: true}},
		{[]itemSpec{{pay: "2-"}}, filterSpec{partial: true, partialSel: 1}},
		{nil, filterSpec{del: true, delSel: 1}},
		{nil, filterSpec{del: true, delElements: true}},
		{nil, filterSpec{del: true, delSel: 2, delElements: true}},
		{nil, filterSpec{del: true, delElements: true, delSub: true}}, // elements naming a sub-element of a nested field (value.scale ...)
		{[]itemSpec{{pay: "-2"}}, filterSpec{del: true, delSel: 1, partial: true, partialSel: 2}},
		{[]itemSpec{{pay: "2-"}}, filterSpec{}}, // filter-less with an identifier-less item (what an application passes to compute a full write data set)
	}
	return m
}

func c11Families(thorough bool) []*engine.IFamily {
	var specs []*listSpec
	for _, sp := range listSpecs() {
		if sp.hasFn && sp.keyKind == "uint" && len(sp.pay) > 0 && sp.ft != model.FeatureTypeTypeNodeManagement {
			specs = append(specs, sp)
		}
	}
	paths := []string{"local", "write", "notify", "reply", "remote-nopersist"}
	lists := &engine.IFamily{Name: "list-snapshots", Chunks: len(specs),
		Rule: fmt.Sprintf("every list-typed function with numeric identifiers reachable through a feature (%d) x install path {local SetData, notify} x every ordered pair of updates from a menu of 11 shapes x path {local API, remote write, notify, reply, non-persisting UpdateData}; retained objects: the value given to SetData, DataCopy of the local and of the remote feature, the data of the last data-change event; each compared with its canonical photo after every update; non-trivial: the update changed the stored list", len(specs)),
		Run: func(chunk int) engine.IResult {
			var r engine.IResult
			sp := specs[chunk]
			now := staticNow
			vtime.StaticNow = &now
			defer func() { vtime.StaticNow = nil }()
			fail := func(clause, detail string) {
				r.NFails++
				key := clause + " | type=" + sp.name
				for _, f := range r.Fails {
					if f.Key == key {
						return
					}
				}
				r.Fails = append(r.Fails, engine.IFail{Key: key, Msg: detail, Input: sp.name})
			}
			menu := c11Menu(sp)
			existing := []itemSpec{{id: 1, pay: "11", flag: 't'}, {id: 2, pay: "11", flag: 't'}}
			res := rt.Execute(rt.Config{}, func() {
				for _, path := range paths {
					for i, u1 := range menu {
						for j, u2 := range menu {
							if !thorough && (i+j)%2 == 1 && path != "local" {
								continue
							}
							c := newC11World(sp)
							var snaps []snap
							take := func(what string, o any) {
								if o != nil {
									snaps = append(snaps, snap{what, o, world.JSON(o)})
								}
							}
							// install: the application sets local data; the peer notifies the remote data
							given := sp.list(existing)
							c.srv.SetData(sp.fn, given)
							c.applyVia("notify", updCase{existing, filterSpec{}})
							take("the value given to SetData", given)
							take("DataCopy of the local feature", c.srv.DataCopy(sp.fn))
							take("DataCopy of the remote feature", c.rsrv.DataCopy(sp.fn))
							take("the data of the data-change event", c.lastEvent())
							for step, u := range []updCase{u1, u2} {
								holder := c.srv
								var before string
								switch path {
								case "local", "write":
									before = world.JSON(holder.DataCopy(sp.fn))
								default:
									before = world.JSON(c.rsrv.DataCopy(sp.fn))
								}
								verdict := c.applyVia(path, u)
								if verdict == "n/a" {
									continue
								}
								r.Evals++
								var after string
								switch path {
								case "local", "write":
									after = world.JSON(holder.DataCopy(sp.fn))
								default:
									after = world.JSON(c.rsrv.DataCopy(sp.fn))
								}
								if after != before {
									r.Nontrivial++
								}
								if (verdict == "rejected" || path == "remote-nopersist") && after != before {
									fail(fmt.Sprintf("an update that %s changed the stored data (%s)", map[bool]string{true: "was reported as failed", false: "was requested without persistence"}[verdict == "rejected"], path),
										fmt.Sprintf("update=%s\n before=%s\n after=%s", u, before, after))
								}
								for _, s := range snaps {
									if now := world.JSON(s.obj); now != s.photo {
										fail(fmt.Sprintf("%s changed after a later update (%s, %s)", s.what, path, u.fs.String()),
											fmt.Sprintf("updates=%s ; %s (step %d)\n photo=%s\n now=%s", u1, u2, step+1, s.photo, now))
									}
								}
								// data obtained after this update is a snapshot too
								take("DataCopy of the local feature", c.srv.DataCopy(sp.fn))
								take("DataCopy of the remote feature", c.rsrv.DataCopy(sp.fn))
								take("the data of the data-change event", c.lastEvent())
							}
							if len(r.Samples) < 1 && i == 4 && j == 1 {
								r.Samples = append(r.Samples, fmt.Sprintf("%s via %s: %s ; %s with %d retained objects", sp.name, path, u1, u2, len(snaps)))
							}
						}
					}
				}
			})
			for _, p := range res.Panics {
				fail("panic in "+p.Frame, p.Value)
			}
			return r
		}}
	// ---- a snapshot handed back to the API as new data (an application mirrors what it got from a peer into its own
	// server feature, or restores an emptied function from a snapshot it kept): the snapshot stays what it was
	handback := &engine.IFamily{Name: "snapshots-handed-back-as-new-data", Chunks: len(specs),
		Rule: "every list-typed function with numeric identifiers: the peer announces a list whose items are NOT in identifier order (3,1,2); DataCopy of the remote feature is photographed (structurally and as text) and handed to the local API as new data of the still empty local function — FeatureLocal.UpdateData with a partial filter, FeatureLocal.SetData, FeatureRemote.UpdateData without persistence — followed by one more local update; the snapshot and the remote feature's data still equal their photos; non-trivial: all",
		Run: func(chunk int) engine.IResult {
			var r engine.IResult
			sp := specs[chunk]
			now := staticNow
			vtime.StaticNow = &now
			defer func() { vtime.StaticNow = nil }()
			fail := func(clause, detail string) {
				r.NFails++
				key := clause + " | type=" + sp.name
				for _, f := range r.Fails {
					if f.Key == key {
						return
					}
				}
				r.Fails = append(r.Fails, engine.IFail{Key: key, Msg: detail, Input: sp.name})
			}
			unordered := []itemSpec{{id: 3, pay: "11"}, {id: 1, pay: "22"}, {id: 2, pay: "12"}}
			res := rt.Execute(rt.Config{}, func() {
				for _, how := range []string{"UpdateData(partial)", "SetData", "remote UpdateData(no persistence)"} {
					c := newC11World(sp)
					c.applyVia("notify", updCase{unordered, filterSpec{}})
					snapshot := c.rsrv.DataCopy(sp.fn)
					if snapshot == nil || reflect.ValueOf(snapshot).IsNil() {
						continue
					}
					r.Evals++
					r.Nontrivial++
					clone, photo := refl.Clone(snapshot), world.JSON(snapshot)
					switch how {
					case "UpdateData(partial)":
						c.srv.UpdateData(sp.fn, snapshot, model.NewFilterTypePartial(), nil)
					case "SetData":
						c.srv.SetData(sp.fn, snapshot)
					default:
						_, _ = c.rsrv.UpdateData(false, sp.fn, snapshot, model.NewFilterTypePartial(), nil)
					}
					rt.WaitIdle()
					check := func(when string) {
						if !reflect.DeepEqual(snapshot, clone) || world.JSON(snapshot) != photo {
							fail("a snapshot handed to the API as new data changed "+when+" ("+how+")", fmt.Sprintf("photo=%.300s\n now=%.300s", photo, world.JSON(snapshot)))
						}
						if now := world.JSON(c.rsrv.DataCopy(sp.fn)); now != photo {
							fail("the data of the feature the snapshot came from changed "+when+" ("+how+")", fmt.Sprintf("photo=%.300s\n now=%.300s", photo, now))
						}
					}
					check("by that call")
					c.applyVia("local", updCase{[]itemSpec{{id: 1, pay: "1-"}}, filterSpec{partial: true}})
					check("by a later update of the local function")
				}
			})
			for _, p := range res.Panics {
				fail("panic in "+p.Frame, p.Value)
			}
			return r
		}}
	uc := &engine.IFamily{Name: "use-case-snapshots", Chunks: 1,
		Rule: "snapshots of nodeManagementUseCaseData (DataCopy of the local node management feature, and the use-case data of a remote device after its reply) x every ordered pair of later use-case operations {add new, add existing (overwrite), set availability, remove, remove all} on the same and on another entity / a later reply; non-trivial: all",
		Run: func(chunk int) engine.IResult {
			var r engine.IResult
			fail := func(clause, detail string) {
				r.NFails++
				for _, f := range r.Fails {
					if f.Key == clause {
						return
					}
				}
				r.Fails = append(r.Fails, engine.IFail{Key: clause, Msg: detail})
			}
			ops := []string{"add:e1:a1:u2:1.0.0:t:1", "add:e1:a1:u1:2.0.0:f:2", "avail:e1:a1:u1:f", "remove:e1:a1:u1", "removeall:e1", "add:e2:a1:u2:1.0.0:t:1", "avail:e2:a1:u1:f", "add:e1:a2:u1:1.0.0:t:1"}
			rt.Execute(rt.Config{}, func() {
				for _, o1 := range ops {
					for _, o2 := range ops {
						u := newUCWorld()
						u.do("add:e1:a1:u1:1.0.0:t:12")
						u.do("add:e2:a1:u1:1.0.0:t:12")
						nm := u.w.L.NodeManagement()
						s := nm.DataCopy(model.FunctionTypeNodeManagementUseCaseData)
						photo := world.JSON(s)
						r.Evals++
						r.Nontrivial++
						for _, o := range []string{o1, o2} {
							u.do(o)
							if now := world.JSON(s); now != photo {
								fail("use-case data obtained from the local node management feature changed after a later use-case operation | op="+strings.Split(o, ":")[0],
									fmt.Sprintf("ops=%s ; %s\n photo=%s\n now=%s", o1, o2, photo, now))
							}
						}
					}
				}
				// remote use-case data: reply, snapshot through DeviceRemote.UseCases, later reply
				u := newUCWorld()
				a := u.w.Peers["A"]
				mk := func(avail bool) model.DatagramType {
					d := &model.NodeManagementUseCaseDataType{}
					d.AddUseCaseSupport(*world.FAddr("dA", []uint{1}, 0), model.UseCaseActorTypeCEM, ucNames["u1"], "1.0.0", "r", avail, scenList("12"))
					return a.Datagram(a.NM(), world.LocalNM(), model.CmdClassifierTypeReply, false, ptrCtr(3), model.CmdType{NodeManagementUseCaseData: d})
				}
				a.Deliver(mk(true))
				rt.WaitIdle()
				s := a.Dev.UseCases()
				photo := world.JSON(s)
				a.Deliver(mk(false))
				rt.WaitIdle()
				r.Evals++
				r.Nontrivial++
				if now := world.JSON(s); now != photo {
					fail("use-case data obtained from a remote device changed after a later reply", fmt.Sprintf("photo=%s\n now=%s", photo, now))
				}
				// use-case data whose addresses come without device part (legal): everything obtained before — the data
				// of the data-change event, DataCopy of the remote node-management feature, an earlier UseCases() result —
				// stays as it is when the getters are used again and when a later reply arrives
				for _, withDev := range []bool{false, true} {
					u := newUCWorldEv(true)
					a := u.w.Peers["A"]
					mk := func(avail bool) model.DatagramType {
						d := &model.NodeManagementUseCaseDataType{}
						addr := *world.FAddr("dA", []uint{1}, 0)
						if !withDev {
							addr.Device = nil
						}
						d.AddUseCaseSupport(addr, model.UseCaseActorTypeCEM, ucNames["u1"], "1.0.0", "r", avail, scenList("12"))
						return a.Datagram(a.NM(), world.LocalNM(), model.CmdClassifierTypeReply, false, ptrCtr(3), model.CmdType{NodeManagementUseCaseData: d})
					}
					m := u.w.Mark()
					a.Deliver(mk(true))
					rt.WaitIdle()
					type snp struct {
						what  string
						obj   any
						photo string
					}
					var snaps []snp
					take := func(what string, o any) {
						if o != nil {
							snaps = append(snaps, snp{what, o, world.JSON(o)})
						}
					}
					for _, e := range u.w.EventsSince(m) {
						if e.Data != nil {
							take("the data of the event published for a use-case reply", e.Data)
						}
					}
					if nmR := a.Dev.FeatureByEntityTypeAndRole(a.Dev.Entity([]model.AddressEntityType{0}), model.FeatureTypeTypeNodeManagement, model.RoleTypeSpecial); nmR != nil {
						take("DataCopy of the remote node-management use-case data", nmR.DataCopy(model.FunctionTypeNodeManagementUseCaseData))
					}
					take("the result of DeviceRemote.UseCases", a.Dev.UseCases())
					for step := 0; step < 3; step++ {
						switch step {
						case 0, 2:
							_ = a.Dev.UseCases()
						case 1:
							a.Deliver(mk(false))
							rt.WaitIdle()
						}
						r.Evals++
						r.Nontrivial++
						for _, sn := range snaps {
							if now := world.JSON(sn.obj); now != sn.photo {
								fail(sn.what+" changed afterwards", fmt.Sprintf("address with device part=%v step=%d\n photo=%s\n now=%s", withDev, step, sn.photo, now))
							}
						}
					}
				}
			})
			return r
		}}
	// ---- data sets that are no lists: every function of every feature type whose payload is a plain structure
	types := c01Types()
	structs := &engine.IFamily{Name: "struct-snapshots", Chunks: len(types),
		Rule: "every function of every feature type (lists included, as plain full data sets) on a local server feature and on the remote feature of a peer: value v1 is stored (SetData / notify), the value given to SetData, DataCopy of the local and of the remote feature and the data of the data-change event are photographed, then v2 is stored the same way and stored again; every retained object still equals its photo; non-trivial: all",
		Run: func(chunk int) engine.IResult {
			var r engine.IResult
			now := staticNow
			vtime.StaticNow = &now
			defer func() { vtime.StaticNow = nil }()
			t := types[chunk]
			fail := func(clause, detail string, fn model.FunctionType) {
				r.NFails++
				key := clause + " | function=" + string(fn)
				for _, f := range r.Fails {
					if f.Key == key {
						return
					}
				}
				r.Fails = append(r.Fails, engine.IFail{Key: key, Msg: detail, Input: string(fn)})
			}
			rt.Execute(rt.Config{Horizon: 2000000}, func() {
				// a second world in which nobody is subscribed or bound yet (created first: creating a world resets the event bus)
				fresh := newC01WorldEv(types, false, false)
				c := newC01WorldEv(types, true, true)
				a := c.w.Peers["A"]
				ti := chunk
				rsrv := a.Dev.FeatureByAddress(world.FAddr("dA", []uint{1}, uint(2*ti+2)))
				for _, fd := range t.fns {
					fn := fd.FunctionType()
					if _, ok := c.writab[fn]; !ok {
						continue
					}
					pt := reflect.TypeOf(fd.DataCopyAny()).Elem()
					val := func(k int) any {
						v := reflect.New(pt)
						v.Elem().Set(refl.Fill(pt, 2, k))
						return v.Interface()
					}
					type snap struct {
						what  string
						obj   any
						photo string
						clone any // structural copy taken before anything encoded the object
					}
					var snaps []snap
					take := func(what string, o any) {
						if o != nil && !reflect.ValueOf(o).IsNil() {
							cl := refl.Clone(o)
							snaps = append(snaps, snap{what, o, world.JSON(o), cl})
						}
					}
					// structural comparison first: a change that the textual form hides (a relative end time re-expressed
					// as the equivalent absolute one) is a change of the data set all the same
					check := func(when string) {
						for _, sn := range snaps {
							if !reflect.DeepEqual(sn.obj, sn.clone) {
								fail(sn.what+" changed "+when+" (field by field)", fmt.Sprintf("was=%.300s\n now=%.300s", c11Dump(sn.clone), c11Dump(sn.obj)), fn)
							} else if now := world.JSON(sn.obj); now != sn.photo {
								fail(sn.what+" changed "+when, fmt.Sprintf("photo=%.400s\n now=%.400s", sn.photo, now), fn)
							}
						}
					}
					// data stored before anybody was sent it: the first serialisation (the reply to a peer's read, the
					// notification after a later change of the data) must not touch what the application holds
					{
						c0 := fresh
						if c0 != nil {
							c0.srv[t.ft].SetData(fn, val(0))
							take("DataCopy of a local feature taken before the data was sent for the first time", c0.srv[t.ft].DataCopy(fn))
							check("when it was photographed")
							a0 := c0.w.Peers["A"]
							rc := model.CmdType{}
							rc.SetDataForFunction(fn, reflect.New(pt).Interface())
							a0.Deliver(a0.Datagram(world.FAddr("dA", []uint{1}, uint(2*ti+1)), c0.srv[t.ft].Address(), model.CmdClassifierTypeRead, false, nil, rc))
							rt.WaitIdle()
							check("after a peer read the function")
							a0.Deliver(a0.SubscribeCall(world.FAddr("dA", []uint{1}, uint(2*ti+1)), c0.srv[t.ft].Address(), t.ft))
							c0.srv[t.ft].SetData(fn, val(1))
							rt.WaitIdle()
							check("after a subscriber was notified of other data")
							snaps = nil
						}
					}
					store := func(k int) {
						mark := c.w.Mark()
						given := val(k)
						c.srv[t.ft].SetData(fn, given)
						take("the value given to SetData", given)
						cmd := model.CmdType{}
						cmd.SetDataForFunction(fn, val(k))
						a.Deliver(a.Datagram(world.FAddr("dA", []uint{1}, uint(2*ti+2)), c.cli[t.ft].Address(), model.CmdClassifierTypeNotify, false, nil, cmd))
						rt.WaitIdle()
						take("DataCopy of the local feature", c.srv[t.ft].DataCopy(fn))
						if rsrv != nil {
							take("DataCopy of the remote feature", rsrv.DataCopy(fn))
						}
						for _, e := range c.w.EventsSince(mark) {
							if e.Type == api.EventTypeDataChange && e.Data != nil {
								take("the data of a data-change event", e.Data)
							}
						}
					}
					r.Evals++
					r.Nontrivial++
					for _, k := range []int{1, 2, 2, 1} {
						store(k)
						check("after a later update")
					}
				}
			})
			return r
		}}
	// ---- data the stack produces itself: the heartbeat
	hb := &engine.IFamily{Name: "heartbeat-snapshots", Chunks: 1,
		Rule: "the heartbeat data of a local entity (timeouts 4 s and 60 s): DataCopy of the local feature and the payload of the notification are retained after the first refresh and after each of three further refreshes (virtual clock) and compared with their photos after every later refresh; non-trivial: all",
		Run: func(int) engine.IResult {
			var r engine.IResult
			for _, to := range []time.Duration{4 * time.Second, time.Minute} {
				rt.Execute(rt.Config{}, func() {
					h := newHBWorld(to, true)
					h.f.AddFunctionType(fnHB, true, false)
					rt.WaitIdle()
					type snap struct {
						obj   any
						photo string
					}
					var snaps []snap
					for i := 0; i < 4; i++ {
						if d := h.f.DataCopy(fnHB); d != nil {
							snaps = append(snaps, snap{d, world.JSON(d)})
						}
						rt.Advance(to)
						rt.WaitIdle()
						r.Evals++
						r.Nontrivial++
						for _, sn := range snaps {
							if now := world.JSON(sn.obj); now != sn.photo {
								r.NFails++
								key := "heartbeat data obtained from the local feature changed after a later refresh"
								dup := false
								for _, f := range r.Fails {
									dup = dup || f.Key == key
								}
								if !dup {
									r.Fails = append(r.Fails, engine.IFail{Key: key, Msg: fmt.Sprintf("timeout=%v photo=%s now=%s", to, sn.photo, now)})
								}
							}
						}
					}
					h.hm.StopHeartbeat()
				})
			}
			return r
		}}
	return []*engine.IFamily{lists, handback, uc, structs, hb}
}

func c11Scenarios() []*engine.SScenario {
	lim := func() *listSpec {
		for _, sp := range listSpecs() {
			if sp.name == "LoadControlLimitListDataType" {
				return sp
			}
		}
		return nil
	}
	mk := func(name string, update func(c *c11World)) *engine.SScenario {
		return &engine.SScenario{Name: name, Run: func(cfg rt.Config) rt.Outcome {
			var viol []string
			var dig string
			res := rt.Execute(cfg, func() {
				sp := lim()
				c := newC11World(sp)
				c.srv.SetData(sp.fn, sp.list([]itemSpec{{id: 1, pay: "11", flag: 't'}, {id: 2, pay: "11", flag: 't'}}))
				c.applyVia("notify", updCase{[]itemSpec{{id: 1, pay: "11", flag: 't'}, {id: 2, pay: "11", flag: 't'}}, filterSpec{}})
				sl := c.srv.DataCopy(sp.fn)
				sr := c.rsrv.DataCopy(sp.fn)
				photoL, photoR := world.JSON(sl), world.JSON(sr)
				var encL, encR string
				rt.BeginExplore()
				rt.Go(func() { encL, encR = c11encode(sl), c11encode(sr) })
				rt.Go(func() { update(c) })
				rt.WaitIdle()
				rt.JoinFinished()
				if encL != photoL || encR != photoR {
					viol = append(viol, "a snapshot encoded while an update was processed differs from its photo")
				}
				dig = fmt.Sprint(encL == photoL, encR == photoR)
			})
			return rt.Outcome{Res: res, Violations: append(viol, panicsAndDeadlocks(res)...), Digest: dig}
		}}
	}
	return []*engine.SScenario{
		mk("encode snapshots | local selector update", func(c *c11World) {
			c.applyViaNoWait("local", updCase{[]itemSpec{{pay: "2-"}}, filterSpec{partial: true, partialSel: 1}})
		}),
		mk("encode snapshots | partial notify with selector", func(c *c11World) {
			c.applyViaNoWait("notify", updCase{[]itemSpec{{pay: "2-"}}, filterSpec{partial: true, partialSel: 2}})
		}),
		mk("encode snapshots | remote write deleting elements", func(c *c11World) {
			c.applyViaNoWait("write", updCase{nil, filterSpec{del: true, delElements: true}})
		}),
		{Name: "read use-case snapshot | use-case addition and availability change", Run: func(cfg rt.Config) rt.Outcome {
			var viol []string
			var dig string
			res := rt.Execute(cfg, func() {
				u := newUCWorld()
				u.do("add:e1:a1:u1:1.0.0:t:12")
				s := u.w.L.NodeManagement().DataCopy(model.FunctionTypeNodeManagementUseCaseData)
				photo := world.JSON(s)
				var enc string
				rt.BeginExplore()
				rt.Go(func() { enc = c11encode(s) })
				rt.Go(func() { u.do("avail:e1:a1:u1:f"); u.do("add:e1:a1:u2:1.0.0:t:1") })
				rt.WaitIdle()
				rt.JoinFinished()
				if enc != photo {
					viol = append(viol, "a use-case snapshot read while use cases were changed differs from its photo")
				}
				dig = fmt.Sprint(enc == photo)
			})
			return rt.Outcome{Res: res, Violations: append(viol, panicsAndDeadlocks(res)...), Digest: dig}
		}},
	}
}

// c11encode is the application reading its snapshot (kept in its own function so
// that race reports name it).
func c11encode(v any) string {
	b, _ := json.Marshal(v)
	return string(b)
}

func (c *c11World) applyViaNoWait(path string, u updCase) {
	fp, fd, ok := c.sp.filters(u.fs)
	if !ok {
		return
	}
	switch path {
	case "local":
		c.srv.UpdateData(c.sp.fn, c.sp.list(u.items), fp, fd)
	case "write":
		c.a.Deliver(c.a.Datagram(c.rcli, c.srv.Address(), model.CmdClassifierTypeWrite, true, nil, c.cmd(u.items, fp, fd)))
	case "notify":
		c.a.Deliver(c.a.Datagram(world.FAddr("dA", []uint{1}, 2), c.cli.Address(), model.CmdClassifierTypeNotify, false, nil, c.cmd(u.items, fp, fd)))
	}
}

func init() {
	engine.Register(&engine.Check{
		ID:        "C11",
		NeedsRace: true,
		Families:  func(c *engine.Ctx) []*engine.IFamily { return c11Families(c.Thorough) },
		Scenarios: func(c *engine.Ctx) []*engine.SScenario { return c11Scenarios() },
		Run: func(c *engine.Ctx) *engine.Report {
			rep := &engine.Report{Level: "model_checking", Coverage: map[string]any{}}
			engine.RunFamilies(c, c11Families(c.Thorough), rep)
			ev, _ := rep.Coverage["evaluations"].(int64)
			rep.Coverage["states"] = 0
			rep.Coverage["transitions"] = int(ev)
			rep.Coverage["traces_validated_against_impl"] = int(ev)
			fsamples := rep.Coverage["samples"]
			delete(rep.Coverage, "samples")
			engine.RunSchedules(c, c11Scenarios(), engine.SPlan{Bounds: boundsFor(c, []int{0, 1, 2}, []int{0, 1, 2, 3}), Race: true, RaceMaxBound: 2, RaceProp: false,
				RaceFuncs: []string{"app:", "UpdateList", "copyTo", "RemoveElementFromItem", "CopyNonNil", "UseCase", "Merge"}}, rep)
			rep.Coverage["transitions"] = rep.Coverage["transitions"].(int) + int(ev)
			rep.Coverage["traces_validated_against_impl"] = rep.Coverage["traces_validated_against_impl"].(int) + int(ev)
			if fs, ok := fsamples.([]any); ok {
				rep.Coverage["samples"] = append(rep.Coverage["samples"].([]any), fs...)
			}
			return rep
		},
	})
}

// c11Dump renders a value field by field without calling any encoder of the data model.
func c11Dump(v any) string { return fmt.Sprintf("%+v", refl.Plain(v)) }
