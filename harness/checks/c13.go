package checks

import (
	"encoding/json"
	"fmt"
	"sort"
	"strings"

	rt "github.com/enbility/spine-go/internal/verifrt"

	"github.com/enbility/spine-go/api"
	"github.com/enbility/spine-go/internal/verifh/engine"
	"github.com/enbility/spine-go/internal/verifh/world"
	"github.com/enbility/spine-go/model"
	"github.com/enbility/spine-go/spine"
	"github.com/enbility/spine-go/util"
)

// C13 — outbound message identity: unique counters and sound request de-duplication.

type sndWorld struct {
	w   *world.Writer
	s   api.SenderInterface
	src *model.FeatureAddressType
	// promo: what a cache of 100 entries that moves a looked-up entry to the front would hold (least recently
	// used first). It is NOT the reference of the property (that is "the last 100 notifications"); it only
	// serves to recognise the recorded finding exactly: a loss is the known one iff the missing notifications
	// are precisely those this cache has evicted.
	promo  []uint64
	others int
}

func (sw *sndWorld) promoTouch(k uint64, insert bool) {
	for i, x := range sw.promo {
		if x == k {
			sw.promo = append(append(sw.promo[:i:i], sw.promo[i+1:]...), k)
			return
		}
	}
	if insert {
		sw.promo = append(sw.promo, k)
		if len(sw.promo) > 100 {
			sw.promo = sw.promo[1:]
		}
	}
}

func newSndWorld() *sndWorld {
	w := &world.Writer{Name: "A"}
	return &sndWorld{w: w, s: spine.NewSender(w), src: world.FAddr("dL", []uint{1}, 1)}
}

func sndDest(d int) *model.FeatureAddressType { return world.FAddr("dA", []uint{1}, uint(d)) }

func sndCmd(c int) []model.CmdType {
	if c == 1 {
		return []model.CmdType{{LoadControlLimitListData: &model.LoadControlLimitListDataType{}}}
	}
	return []model.CmdType{{MeasurementListData: &model.MeasurementListDataType{}}}
}

func (sw *sndWorld) outs(from int) []world.Out {
	var o []world.Out
	for _, d := range sw.w.Datagrams(from) {
		o = append(o, world.Canon("A", d))
	}
	return o
}

// ---------------------------------------------------------------- histories: request de-duplication

type reqModel struct {
	out      map[string][]uint64 // (dest,cmd) -> unanswered counters
	answered []uint64
	last     uint64
}

func (sw *sndWorld) stepReq(m *reqModel, op string, judge bool) (viol []string, digest string, effect bool) {
	f := strings.Split(op, ":")
	before := sw.w.Len()
	switch f[0] {
	case "req":
		d, c := atoi(f[1]), atoi(f[2])
		cl := model.CmdClassifierTypeRead
		if f[3] == "call" {
			cl = model.CmdClassifierTypeCall
		}
		key := fmt.Sprintf("%d/%d", d, c)
		ctr, err := sw.s.Request(cl, sw.src, sndDest(d), false, sndCmd(c))
		written := sw.outs(before)
		if err != nil || ctr == nil {
			return []string{fmt.Sprintf("Request failed | %v", err)}, "req:error", false
		}
		k := uint64(*ctr)
		switch len(written) {
		case 0:
			digest = "req:withheld"
			ok := false
			for _, x := range m.out[key] {
				ok = ok || x == k
			}
			if judge && !ok {
				viol = append(viol, fmt.Sprintf("request withheld although no identical request with the returned counter is unanswered | op=%s returned=%d unanswered=%v", op, k, m.out[key]))
			}
		case 1:
			digest = "req:sent"
			effect = true
			if judge && (written[0].Ctr != k || written[0].Class != string(cl) || written[0].Dst != world.AddrStr(sndDest(d))) {
				viol = append(viol, fmt.Sprintf("written request does not match the call | op=%s returned=%d written=%s ctr=%d", op, k, written[0], written[0].Ctr))
			}
			if judge && k <= m.last {
				viol = append(viol, fmt.Sprintf("message counter did not increase | last=%d new=%d", m.last, k))
			}
			m.last = k
			m.out[key] = append(m.out[key], k)
		default:
			viol = append(viol, fmt.Sprintf("one Request wrote %d datagrams", len(written)))
		}
		if judge && len(m.out[key]) == 1 && len(written) == 0 && m.out[key][0] != k {
			viol = append(viol, "withheld request returned a foreign counter")
		}
	case "resp":
		var ref uint64
		switch {
		case f[1] == "unknown":
			ref = 99999
		case f[1] == "answered":
			if len(m.answered) == 0 {
				return nil, "resp:none", false
			}
			ref = m.answered[0]
		default: // o<i>: i-th unanswered counter in issue order
			var all []uint64
			for _, l := range m.out {
				all = append(all, l...)
			}
			sort.Slice(all, func(i, j int) bool { return all[i] < all[j] })
			i := atoi(f[1][1:])
			if i >= len(all) {
				return nil, "resp:none", false
			}
			ref = all[i]
			effect = true
		}
		r := model.MsgCounterType(ref)
		sw.s.ProcessResponseForMsgCounterReference(&r)
		for key, l := range m.out {
			var nl []uint64
			for _, x := range l {
				if x == ref {
					m.answered = append(m.answered, x)
				} else {
					nl = append(nl, x)
				}
			}
			if len(nl) == 0 {
				delete(m.out, key)
			} else {
				m.out[key] = nl
			}
		}
		digest = "resp:" + f[1]
		if judge && sw.w.Len() != before {
			viol = append(viol, "processing a response wrote a datagram")
		}
	}
	if judge {
		cache := spine.VerifReqCache(sw.s)
		if len(cache) > 21 {
			viol = append(viol, fmt.Sprintf("memory of unanswered requests exceeds its bound | size=%d", len(cache)))
		}
		// every cached counter must be an unanswered request of the model
		for _, k := range cache {
			ok := false
			for _, l := range m.out {
				for _, x := range l {
					ok = ok || x == k
				}
			}
			if !ok {
				viol = append(viol, fmt.Sprintf("answered or unknown counter still remembered as unanswered | counter=%d op=%s", k, op))
			}
		}
	}
	return
}

// key: the remembered unanswered requests as (dest,cmd) in counter order (ranks, not values)
func (sw *sndWorld) reqKey(m *reqModel) string {
	cache := spine.VerifReqCache(sw.s)
	byCtr := map[uint64]string{}
	for key, l := range m.out {
		for _, x := range l {
			byCtr[x] = key
		}
	}
	var parts []string
	for _, k := range cache {
		parts = append(parts, byCtr[k])
	}
	var rest []string
	for key, l := range m.out {
		rest = append(rest, fmt.Sprintf("%s#%d", key, len(l)))
	}
	sort.Strings(rest)
	return fmt.Sprintf("cache=%v unanswered=%v answered=%v", parts, rest, len(m.answered) > 0)
}

func c13ReqDriver(name string, alphabet []string, starts [][]string) *engine.HDriver {
	return &engine.HDriver{Name: name, Alphabet: alphabet, Starts: starts, Step: func(hist []string, op string) engine.HStep {
		sw := newSndWorld()
		m := &reqModel{out: map[string][]uint64{}}
		for _, h := range hist {
			sw.stepReq(m, h, false)
		}
		var st engine.HStep
		if op != "" {
			st.Violations, st.Digest, st.Effect = sw.stepReq(m, op, true)
		}
		st.Key = sw.reqKey(m)
		return st
	}}
}

// ---------------------------------------------------------------- histories: notify cache

func (sw *sndWorld) stepNotify(ctrs *[]uint64, op string, judge bool) (viol []string, digest string) {
	f := strings.Split(op, ":")
	switch f[0] {
	case "notify":
		before := sw.w.Len()
		lookedUp, found := false, false
		if len(f) > 1 && f[1] == "sync" {
			// the peer's result for this notification is handled while the write call is still in progress (loop-back
			// connection, fast peer): the lookup by its counter happens from inside the write
			sw.w.OnWrite = func(b []byte) {
				sw.w.OnWrite = nil
				var dg model.Datagram
				if json.Unmarshal(b, &dg) != nil || dg.Datagram.Header.MsgCounter == nil {
					return
				}
				lookedUp = true
				got, err := sw.s.DatagramForMsgCounter(*dg.Datagram.Header.MsgCounter)
				found = err == nil && got.Header.MsgCounter != nil && *got.Header.MsgCounter == *dg.Datagram.Header.MsgCounter
			}
		}
		c, err := sw.s.Notify(sw.src, sndDest(1), model.CmdType{MeasurementListData: &model.MeasurementListDataType{}})
		sw.w.OnWrite = nil
		if err != nil || c == nil || sw.w.Len() != before+1 {
			return []string{"Notify failed"}, "notify:error"
		}
		if len(f) > 1 && (!lookedUp || !found) && judge {
			viol = append(viol, fmt.Sprintf("a notification that is already written to the connection cannot be retrieved by its counter | lookedUp=%v found=%v", lookedUp, found))
		}
		*ctrs = append(*ctrs, uint64(*c))
		sw.promoTouch(uint64(*c), true)
		digest = "notify"
	case "other":
		// a datagram that is no notification takes a message counter of the same connection: a result, a write,
		// a reply or a request, in turn (f[1] when given, else by the position in the history)
		kind := []string{"result", "write", "reply", "request"}[sw.others%4]
		if len(f) > 1 {
			kind = f[1]
		}
		sw.others++
		var err error
		hdr := &model.HeaderType{AddressSource: sndDest(1), AddressDestination: sw.src, MsgCounter: ptrCtr(7)}
		switch kind {
		case "result":
			err = sw.s.ResultSuccess(hdr, sw.src)
		case "write":
			_, err = sw.s.Write(sw.src, sndDest(1), model.CmdType{MeasurementListData: &model.MeasurementListDataType{}})
		case "reply":
			err = sw.s.Reply(hdr, sw.src, model.CmdType{MeasurementListData: &model.MeasurementListDataType{}})
		case "request":
			_, err = sw.s.Request(model.CmdClassifierTypeRead, sw.src, sndDest(sw.others+10), false, []model.CmdType{{MeasurementListData: &model.MeasurementListDataType{}}})
		}
		if err != nil {
			return []string{"sending a " + kind + " failed"}, "other:error"
		}
		digest = "other"
	case "get":
		l := *ctrs
		if len(l) < 2 {
			return nil, "get:none"
		}
		last := l
		if len(last) > 100 {
			last = l[len(l)-100:]
		}
		var k uint64
		must := true
		switch f[1] {
		case "oldest":
			k = last[0]
		case "second":
			k = last[1]
		case "newest":
			k = last[len(last)-1]
		case "evicted":
			if len(l) <= 100 {
				return nil, "get:none"
			}
			k, must = l[len(l)-101], false
		}
		d, err := sw.s.DatagramForMsgCounter(model.MsgCounterType(k))
		if err == nil {
			sw.promoTouch(k, false)
		}
		digest = fmt.Sprintf("get:%s:%v", f[1], err == nil)
		if judge && must && err != nil {
			viol = append(viol, fmt.Sprintf("a notification among the last 100 cannot be retrieved | which=%s", f[1]))
		}
		if judge && err == nil && (d.Header.MsgCounter == nil || uint64(*d.Header.MsgCounter) != k) {
			viol = append(viol, "DatagramForMsgCounter returned another datagram")
		}
	}
	return
}

func c13NotifyDriver() *engine.HDriver {
	var starts [][]string
	for _, n := range []int{98, 99, 100, 101} {
		var h []string
		for i := 0; i < n; i++ {
			h = append(h, "notify")
		}
		starts = append(starts, h)
	}
	// mixed traffic: the last 100 notifications do not carry 100 consecutive counters
	for _, k := range []int{1, 50, 99} {
		var h []string
		for i := 0; i < 100; i++ {
			if i == k {
				h = append(h, "other")
			}
			h = append(h, "notify")
		}
		starts = append(starts, h)
	}
	var alt, altW []string
	for i := 0; i < 60; i++ {
		alt = append(alt, "notify", "other")
		altW = append(altW, "notify", "other:write")
	}
	starts = append(starts, alt, altW)
	return &engine.HDriver{Name: "notify-cache", Alphabet: []string{"notify", "get:oldest", "get:second", "get:newest", "get:evicted", "other", "other:write", "notify:sync"}, Starts: starts,
		Step: func(hist []string, op string) engine.HStep {
			sw := newSndWorld()
			var ctrs []uint64
			for _, h := range hist {
				sw.stepNotify(&ctrs, h, false)
			}
			var st engine.HStep
			if op != "" {
				st.Violations, st.Digest = sw.stepNotify(&ctrs, op, true)
				st.Effect = op == "notify"
				// final sweep (the world is discarded afterwards, so the promoting lookups do no harm)
				last := ctrs
				if len(last) > 100 {
					last = ctrs[len(ctrs)-100:]
				}
				missing := 0
				inPromo := map[uint64]bool{}
				for _, k := range sw.promo {
					inPromo[k] = true
				}
				asPromotion := true // the missing ones are exactly those a promoting cache has evicted
				for _, k := range last {
					d, err := sw.s.DatagramForMsgCounter(model.MsgCounterType(k))
					if err != nil {
						missing++
					} else if uint64(*d.Header.MsgCounter) != k {
						st.Violations = append(st.Violations, "DatagramForMsgCounter returned another datagram")
					}
					if (err != nil) == inPromo[k] {
						asPromotion = false
					}
				}
				if missing > 0 && asPromotion {
					// the oracle names the failing input class itself ("!"): lookups that promoted entries, then notifies
					st.Violations = append(st.Violations, "!a notification among the last 100 cannot be retrieved: exactly the notifications that a cache which moves a looked-up entry to the front has evicted (lookup of a retrievable notification, then further notifications)")
				} else if missing > 0 {
					st.Violations = append(st.Violations, fmt.Sprintf("a notification among the last 100 cannot be retrieved | missing=%d after %d notifies", missing, len(ctrs)))
				}
			}
			// the cache lost an entry: nothing below this state can be judged
			st.Cut = len(st.Violations) > 0
			// the LRU order is hidden state: every history is its own state (depth is bounded)
			n := 0
			var tailOps []string
			for _, h := range append(append([]string{}, hist...), op) {
				if h == "notify" && len(tailOps) == 0 {
					n++
				} else if h != "" {
					tailOps = append(tailOps, h)
				}
			}
			st.Key = fmt.Sprintf("prelude=%d;%s", n, strings.Join(tailOps, ";"))
			return st
		}}
}

// ---------------------------------------------------------------- histories: de-duplication through the device

// c13DeviceDriver issues the requests through the feature API (FeatureLocal.RequestRemoteData)
// and delivers the responses as datagrams on the connection, including responses whose
// processing fails: any response that references the counter re-enables sending.
func c13DeviceDriver() *engine.HDriver {
	alpha := []string{"req:1:1", "req:1:2", "req:2:1", "reqsync:1:1"}
	for _, i := range []string{"o0", "o1"} {
		for _, v := range []string{"reply", "reply-other-function", "reply-to-unknown-local-feature", "reply-from-unknown-remote-feature", "result-ok", "result-error", "result-without-errornumber"} {
			alpha = append(alpha, "resp:"+i+":"+v)
		}
	}
	type dw struct {
		w  *world.World
		lf api.FeatureLocalInterface
		m  *reqModel
	}
	step := func(d *dw, op string, judge bool) (viol []string, digest string, effect bool) {
		a := d.w.Peers["A"]
		f := strings.Split(op, ":")
		switch f[0] {
		case "req", "reqsync":
			ent, fnI := uint(atoi(f[1])), atoi(f[2])
			fn := fnLimit
			if fnI == 2 {
				fn = fnLimitDesc
			}
			rf := a.Dev.FeatureByAddress(world.FAddr("dA", []uint{ent}, 4))
			key := f[1] + "/" + f[2]
			before := a.W.Len()
			if f[0] == "reqsync" {
				// the peer answers while the write call of the request is still in progress (loop-back connection)
				a.W.OnWrite = func(b []byte) {
					a.W.OnWrite = nil
					var dg model.Datagram
					if json.Unmarshal(b, &dg) != nil || dg.Datagram.Header.MsgCounter == nil {
						return
					}
					cmd := model.CmdType{LoadControlLimitListData: limitList(2, 1)}
					if fnI == 2 {
						cmd = model.CmdType{LoadControlLimitDescriptionListData: limitDescList(2)}
					}
					a.Deliver(a.Datagram(world.FAddr("dA", []uint{ent}, 4), d.lf.Address(), model.CmdClassifierTypeReply, false, dg.Datagram.Header.MsgCounter, cmd))
				}
			}
			ctr, err := d.lf.RequestRemoteData(fn, nil, nil, rf)
			a.W.OnWrite = nil
			if err != nil || ctr == nil {
				return []string{"RequestRemoteData failed"}, "req:error", false
			}
			k := uint64(*ctr)
			written := a.W.Len() - before
			switch written {
			case 0:
				digest = "req:withheld"
				ok := false
				for _, x := range d.m.out[key] {
					ok = ok || x == k
				}
				if judge && !ok {
					viol = append(viol, fmt.Sprintf("request withheld although no identical request with the returned counter is unanswered | op=%s returned=%d unanswered=%v", op, k, d.m.out[key]))
				}
			case 1:
				digest, effect = "req:sent", true
				if f[0] != "reqsync" { // (answered at once: not outstanding)
					d.m.out[key] = append(d.m.out[key], k)
				}
			default:
				viol = append(viol, "one request wrote several datagrams")
			}
		case "resp":
			var all []uint64
			keyOf := map[uint64]string{}
			for key, l := range d.m.out {
				for _, x := range l {
					all = append(all, x)
					keyOf[x] = key
				}
			}
			sort.Slice(all, func(i, j int) bool { return all[i] < all[j] })
			i := atoi(f[1][1:])
			if i >= len(all) {
				return nil, "resp:none", false
			}
			ref := all[i]
			ent := uint(atoi(strings.Split(keyOf[ref], "/")[0]))
			src := world.FAddr("dA", []uint{ent}, 4)
			dst := d.lf.Address()
			cl := model.CmdClassifierTypeReply
			cmd := model.CmdType{LoadControlLimitListData: limitList(2, 1)}
			if strings.HasSuffix(keyOf[ref], "/2") {
				cmd = model.CmdType{LoadControlLimitDescriptionListData: limitDescList(2)}
			}
			switch f[2] {
			case "reply-other-function":
				cmd = model.CmdType{MeasurementListData: &model.MeasurementListDataType{}}
			case "reply-to-unknown-local-feature":
				dst = world.FAddr(world.LocalAddr, []uint{1}, 99)
			case "reply-from-unknown-remote-feature":
				src = world.FAddr("dA", []uint{ent}, 99)
			case "result-ok":
				cl = model.CmdClassifierTypeResult
				cmd = model.CmdType{ResultData: &model.ResultDataType{ErrorNumber: util.Ptr(model.ErrorNumberType(0))}}
			case "result-error":
				cl = model.CmdClassifierTypeResult
				cmd = model.CmdType{ResultData: &model.ResultDataType{ErrorNumber: util.Ptr(model.ErrorNumberType(7))}}
			case "result-without-errornumber":
				cl = model.CmdClassifierTypeResult
				cmd = model.CmdType{ResultData: &model.ResultDataType{}}
			}
			a.Deliver(a.Datagram(src, dst, cl, false, ptrCtr(ref), cmd))
			rt.WaitIdle()
			// a response referencing the counter answers the request, whatever its processing yields
			key := keyOf[ref]
			var nl []uint64
			for _, x := range d.m.out[key] {
				if x != ref {
					nl = append(nl, x)
				}
			}
			if len(nl) == 0 {
				delete(d.m.out, key)
			} else {
				d.m.out[key] = nl
			}
			digest, effect = "resp:"+f[2], true
		}
		if judge {
			for _, k := range spine.VerifReqCache(a.Dev.Sender()) {
				ok := false
				for _, l := range d.m.out {
					for _, x := range l {
						ok = ok || x == k
					}
				}
				// the requests the stack issued on its own during set-up (discovery, use cases, subscription) are answered or not the subject here
				if !ok && k > 3 {
					viol = append(viol, fmt.Sprintf("a request that was answered by a response referencing its counter is still remembered as unanswered (identical requests stay withheld) | counter=%d op=%s", k, op))
				}
			}
		}
		return
	}
	return &engine.HDriver{Name: "request-dedup-through-device", Alphabet: alpha, Step: func(hist []string, op string) engine.HStep {
		d := &dw{w: stdWorld(false, "A"), m: &reqModel{out: map[string][]uint64{}}}
		d.lf = d.w.L.FeatureByAddress(world.FAddr(world.LocalAddr, []uint{1}, lLCClient))
		rt.WaitIdle()
		for _, h := range hist {
			step(d, h, false)
		}
		var st engine.HStep
		if op != "" {
			st.Violations, st.Digest, st.Effect = step(d, op, true)
		}
		// the unanswered requests in issue order (responses address them by age: o0 is the oldest), counters by rank
		type oc struct {
			ctr uint64
			key string
		}
		var ocs []oc
		for k, l := range d.m.out {
			for _, x := range l {
				ocs = append(ocs, oc{x, k})
			}
		}
		sort.Slice(ocs, func(i, j int) bool { return ocs[i].ctr < ocs[j].ctr })
		var ks []string
		for _, o := range ocs {
			ks = append(ks, o.key)
		}
		st.Key = fmt.Sprintf("unanswered=%v cache=%d", ks, len(spine.VerifReqCache(d.w.Peers["A"].Dev.Sender())))
		return st
	}}
}

func c13Drivers(thorough bool) []*engine.HDriver {
	var alpha []string
	for _, d := range []int{1, 2} {
		for _, c := range []int{1, 2} {
			alpha = append(alpha, fmt.Sprintf("req:%d:%d:read", d, c))
		}
	}
	alpha = append(alpha, "req:1:1:call", "resp:o0", "resp:o1", "resp:o2", "resp:answered", "resp:unknown")
	// overflow: preludes of 19..23 distinct unanswered requests
	var starts [][]string
	for _, n := range []int{19, 20, 21, 22, 23} {
		var h []string
		for i := 0; i < n; i++ {
			h = append(h, fmt.Sprintf("req:%d:1:read", 10+i))
		}
		starts = append(starts, h)
	}
	over := []string{"req:40:1:read", "req:41:1:read", "req:10:1:read", "req:11:1:read", "req:12:2:read", "resp:o0", "resp:o1", "resp:answered"}
	ds := []*engine.HDriver{c13ReqDriver("request-dedup", alpha, nil), c13DeviceDriver(), c13ReqDriver("request-overflow", over, starts), c13NotifyDriver()}
	return ds
}

// ---------------------------------------------------------------- schedules

type sndCall struct {
	name       string
	ctr        uint64
	wrote      bool
	start, end int
}

func c13Scenarios() []*engine.SScenario {
	mk := func(name string, threads [][]string) *engine.SScenario {
		return &engine.SScenario{Name: name, Run: func(cfg rt.Config) rt.Outcome {
			var viol []string
			var dig string
			res := rt.Execute(cfg, func() {
				sw := newSndWorld()
				hdr := &model.HeaderType{AddressSource: sndDest(1), AddressDestination: sw.src, MsgCounter: ptrCtr(77)}
				var calls [][]uint64 = make([][]uint64, len(threads))
				rt.BeginExplore()
				for ti, ops := range threads {
					ti, ops := ti, ops
					rt.Go(func() {
						for oi, op := range ops {
							rt.Mark(fmt.Sprintf("call %d.%d", ti, oi))
							var c *model.MsgCounterType
							switch op {
							case "req11":
								c, _ = sw.s.Request(model.CmdClassifierTypeRead, sw.src, sndDest(1), false, sndCmd(1))
							case "req12":
								c, _ = sw.s.Request(model.CmdClassifierTypeRead, sw.src, sndDest(1), false, sndCmd(2))
							case "notify":
								c, _ = sw.s.Notify(sw.src, sndDest(1), sndCmd(2)[0])
							case "write":
								c, _ = sw.s.Write(sw.src, sndDest(1), sndCmd(1)[0])
							case "reply":
								_ = sw.s.Reply(hdr, sw.src, sndCmd(1)[0])
							case "resok":
								_ = sw.s.ResultSuccess(hdr, sw.src)
							case "reserr":
								_ = sw.s.ResultError(hdr, sw.src, model.NewErrorTypeFromString("x"))
							case "sub":
								c, _ = sw.s.Subscribe(sw.src, sndDest(4), model.FeatureTypeTypeLoadControl)
							case "bind":
								c, _ = sw.s.Bind(sw.src, sndDest(4), model.FeatureTypeTypeLoadControl)
							case "resp1":
								r := model.MsgCounterType(1)
								sw.s.ProcessResponseForMsgCounterReference(&r)
							}
							k := uint64(0)
							if c != nil {
								k = uint64(*c)
							}
							calls[ti] = append(calls[ti], k)
							rt.Mark(fmt.Sprintf("ret %d.%d %d", ti, oi, k))
						}
					})
				}
				rt.WaitIdle()
				rt.JoinFinished()
				outs := sw.outs(0)
				seen := map[uint64]bool{}
				var cs []string
				for _, o := range outs {
					if seen[o.Ctr] {
						viol = append(viol, fmt.Sprintf("two datagrams on one connection carry the same message counter | ctr=%d", o.Ctr))
					}
					seen[o.Ctr] = true
					cs = append(cs, fmt.Sprintf("%s%d", o.Class[:2], o.Ctr))
				}
				// identical concurrent requests: the ones that share a (dest,cmd) and were not separated by a response
				for ti := range threads {
					for oi, op := range threads[ti] {
						if !strings.HasPrefix(op, "req") && op != "sub" && op != "bind" {
							continue
						}
						k := calls[ti][oi]
						n := 0
						for _, o := range outs {
							if o.Ctr == k {
								n++
							}
						}
						if n != 1 {
							viol = append(viol, fmt.Sprintf("counter returned by a request does not identify exactly one written datagram | op=%s n=%d", op, n))
						}
					}
				}
				if len(spine.VerifReqCache(sw.s)) > 21 {
					viol = append(viol, "memory of unanswered requests exceeds its bound")
				}
				dig = strings.Join(cs, ",")
			})
			// strictly increasing for non-overlapping calls: from the call/return log
			viol = append(viol, orderViolations(res.Log)...)
			return rt.Outcome{Res: res, Violations: append(viol, panicsAndDeadlocks(res)...), Digest: dig}
		}}
	}
	return []*engine.SScenario{
		mk("notify+request | same-request+reply | result+write", [][]string{{"notify", "req11"}, {"req11", "reply"}, {"reserr", "write"}}),
		mk("subscribe | bind | request vs response", [][]string{{"sub"}, {"bind", "req12"}, {"req11", "resp1", "req11"}}),
		mk("two identical requests racing a response", [][]string{{"req11"}, {"req11"}, {"resp1"}}),
	}
}

func ptrCtr(v uint64) *model.MsgCounterType { c := model.MsgCounterType(v); return &c }

// orderViolations checks, on the call/return log, that a call which started
// after another one had returned got a larger counter.
func orderViolations(log []string) []string {
	type iv struct {
		start, end int
		ctr        uint64
	}
	ivs := map[string]*iv{}
	for i, l := range log {
		var a string
		var k uint64
		if n, _ := fmt.Sscanf(l, "call %s", &a); n == 1 {
			ivs[a] = &iv{start: i}
		} else if n, _ := fmt.Sscanf(l, "ret %s %d", &a, &k); n == 2 && ivs[a] != nil {
			ivs[a].end, ivs[a].ctr = i, k
		}
	}
	// a withheld request returns the counter of the earlier identical request: counters
	// returned by more than one call do not denote a newly issued datagram
	cnt := map[uint64]int{}
	for _, x := range ivs {
		cnt[x.ctr]++
	}
	for _, x := range ivs {
		if cnt[x.ctr] > 1 {
			x.ctr = 0
		}
	}
	var v []string
	for a, x := range ivs {
		for b, y := range ivs {
			if a != b && x.ctr != 0 && y.ctr != 0 && x.end < y.start && x.ctr > y.ctr {
				v = append(v, fmt.Sprintf("a later, non-overlapping call got a smaller message counter | %s=%d before %s=%d", a, x.ctr, b, y.ctr))
			}
		}
	}
	sort.Strings(v)
	return v
}

func init() {
	engine.Register(&engine.Check{
		ID:        "C13",
		NeedsRace: true,
		Drivers:   func(c *engine.Ctx) []*engine.HDriver { return c13Drivers(c.Thorough) },
		Scenarios: func(c *engine.Ctx) []*engine.SScenario { return c13Scenarios() },
		Run: func(c *engine.Ctx) *engine.Report {
			rep := &engine.Report{Level: "model_checking", Coverage: map[string]any{}}
			for _, d := range c13Drivers(c.Thorough) {
				depth := 64
				if d.Name != "request-dedup" && d.Name != "request-dedup-through-device" {
					depth = 3
					if c.Thorough {
						depth = 4
					}
				}
				st := engine.RunHistories(c, d, depth, rep)
				engine.AddHCoverage(rep, d.Name, st, len(d.Alphabet))
			}
			mergeS(c, rep, c13Scenarios(), engine.SPlan{Bounds: boundsFor(c, []int{0, 1, 2}, []int{0, 1, 2, 3}), Race: true, RaceFuncs: []string{"Sender"}})
			return rep
		},
	})
}
