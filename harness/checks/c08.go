package checks

import (
	"github.com/enbility/spine-go/internal/verifh/engine"
	"github.com/enbility/spine-go/spine"
)

// C08 — subscriptions: exact registry and exactly-once notification fan-out.

func c08Alphabet(thorough bool) []string {
	var a []string
	valid := [][3]string{{"A", "e1f1", "L1lc"}, {"A", "e1f1", "L2lc"}, {"A", "e2f1", "L1lc"}, {"B", "e1f1", "L1lc"}, {"B", "e1f1", "L2lc"}}
	if thorough {
		valid = append(valid, [3]string{"A", "e2f1", "L2lc"}, [3]string{"B", "e2f1", "L1lc"}, [3]string{"A", "e1f2", "L1lc"})
	}
	for _, v := range valid {
		a = append(a, "sub:"+v[0]+":"+v[1]+":"+v[2]+":lc:d")
	}
	a = append(a, "sub:A:nm:Lnm:nm:d")
	// the same pairs with the device parts omitted (must denote the same entry)
	a = append(a, "sub:A:e1f1:L1lc:lc:n", "sub:B:e1f1:L2lc:lc:n")
	if thorough {
		a = append(a, "sub:A:e1f3:L1ms:ms:d") // another feature type, valid
	}
	// invalid: wrong role, wrong type, unknown addresses
	a = append(a,
		"sub:A:e1f3:L1lc:lc:d",  // client of another type
		"sub:A:e1f4:L1lc:lc:d",  // a server feature as client
		"sub:A:e1f9:L1lc:lc:d",  // unknown client feature
		"sub:A:e9f1:L1lc:lc:d",  // unknown client entity
		"sub:A:e1f1:L1cl:lc:d",  // local client feature as server
		"sub:A:e1f1:L1x:lc:d",   // unknown server feature
		"sub:A:e1f1:L9:lc:d",    // unknown server entity
		"sub:A:e1f1:L1lc:ms:d",  // wrong requested type
		"sub:B:e1f1:L1ms:lc:d",  // type mismatch with the server
		"sub:A:e1f1:L1lc:gen:d", // the type Generic requested for features that are not Generic
		"sub:A:e1f1:L1ms:gen:d", // ... which would even pair a LoadControl client with a Measurement server
	)
	for _, v := range valid {
		a = append(a, "unsub:"+v[0]+":"+v[1]+":"+v[2]+":d")
	}
	a = append(a, "unsub:A:nm:Lnm:d", "unsub:A:e1f1:L1lc:n", "unsub:A:e1f9:L1lc:d", "unsub:A:e1f1:L1x:d", "unsub:B:e2f2:L2lc:d")
	// a delete whose client address names the other peer's device (same numbers): no entry of the sender
	a = append(a, "unsub:B:e1f1:L1lc:x", "unsub:A:e1f1:L2lc:x")
	// nested addresses: the local sub-entity [1,1] has the same feature numbers as its parent [1], and every
	// peer has a sub-entity [1,1] with the same client features as its [1]
	a = append(a, "sub:A:e1f1:L11lc:lc:d", "sub:B:e11f1:L1lc:lc:d", "unsub:A:e1f1:L11lc:d", "unsub:B:e11f1:L1lc:d", "set:L11lc:2")
	// data changes
	a = append(a, "set:L1lc:2", "set:L1lc:1", "upd:L1lc:2", "set:L2lc:1")
	if thorough {
		a = append(a, "bind:A:e1f1:L1lc:lc:d", "unbind:A:e1f1:L1lc:d", "write:A:e1f1:L1lc:limit:ack:2", "write:A:e1f1:L1lc:limit:noack:1", "upd:L2lc:1")
	}
	// a delete that carries only the id of the other peer's subscription (no addresses)
	a = append(a, "idrm:s:B", "idrm:s:A")
	return a
}

// the registry world of the step that just ran (one step per execution, executions of a worker run one after another)
var c08LastWorld *regWorld

func c08RegistryIds() string {
	if c08LastWorld == nil {
		return ""
	}
	return spine.VerifRegistryIds(c08LastWorld.w.L)
}

func c08Drivers(thorough bool) []*engine.HDriver {
	// a local server feature of type Generic fits every requested type; the client has to fit the REQUESTED type
	gen := []string{"sub:A:e1f1:L1gen:lc:d", "sub:B:e1f3:L1gen:ms:d", "sub:A:e1f3:L1gen:lc:d", "sub:A:e1f1:L1gen:gen:d", "sub:B:e1f4:L1gen:lc:d",
		"unsub:A:e1f1:L1gen:d", "unsub:B:e1f3:L1gen:d", "sub:A:e1f1:L1lc:lc:d", "disc:A", "reconn:A"}
	// the local node management feature (role special) is subscribed like a server feature, and its subscribers are
	// notified when its data changes (the use case data does at run time)
	nm := []string{"sub:A:nm:Lnm:nm:d", "sub:B:nm:Lnm:nm:d", "unsub:A:nm:Lnm:d", "uc:1", "uc:0", "disc:A", "reconn:A", "sub:A:e1f1:L1lc:lc:d", "set:L1lc:2"}
	// a local entity is removed and a new object added under its address: nobody is subscribed to the new features
	// until it subscribes again, and a data change then notifies each subscriber once
	repl := []string{"sub:A:e1f1:L2lc:lc:d", "sub:B:e1f1:L2lc:lc:d", "sub:A:e1f1:L1lc:lc:d", "unsub:A:e1f1:L2lc:d", "lrepl:2", "set:L2lc:2", "set:L2lc:1", "set:L1lc:2"}
	// how ids are handed out may depend on the ids in use (not only on their order): a depth-bounded driver whose state
	// key holds the absolute ids in registry order
	idsD := regDriver("subscription-ids", []string{"sub:A:e1f1:L1lc:lc:d", "sub:A:e1f1:L2lc:lc:d", "sub:A:e2f1:L1lc:lc:d", "sub:B:e1f1:L1lc:lc:d",
		"unsub:A:e1f1:L1lc:d", "unsub:A:e1f1:L2lc:d", "unsub:B:e1f1:L1lc:d", "sub:A:e1f9:L1lc:lc:d"}, true, false, nil)
	idStep := idsD.Step
	idsD.Step = func(hist []string, op string) engine.HStep {
		st := idStep(hist, op)
		st.Key += " " + c08RegistryIds()
		return st
	}
	return []*engine.HDriver{idsD, regDriver("subscriptions", c08Alphabet(thorough), true, false, nil), regDriver("subscriptions-generic-server-feature", gen, true, false, nil),
		regDriver("subscriptions-node-management", nm, true, false, nil), regDriver("subscriptions-local-entity-replaced", repl, true, false, nil)}
}

// c08Scenarios: the grant decision ("not subscribed already"), the removal of exactly the addressed
// pair and the fan-out stay exact when messages are processed concurrently: every outcome must be
// the outcome of some sequential order of the same messages (see conc.go).
func c08Scenarios(thorough bool) []*engine.SScenario {
	pair := "sub:A:e1f1:L1lc:lc:d"
	scs := []*engine.SScenario{
		linScenario([]string{"sub:B:e1f1:L1lc:lc:d"}, [][]string{{pair}, {pair}}, []string{"set:L1lc:2"}),
		linScenario(nil, [][]string{{pair}, {"sub:A:e1f1:L1lc:lc:n"}}, []string{"set:L1lc:2", "unsub:A:e1f1:L1lc:d", "set:L1lc:1"}),
		linScenario(nil, [][]string{{pair}, {"sub:B:e1f1:L1lc:lc:d"}}, []string{"set:L1lc:2"}),
		linScenario([]string{pair, "sub:B:e1f1:L1lc:lc:d"}, [][]string{{"unsub:A:e1f1:L1lc:d", pair}, {"sub:A:e1f1:L1lc:lc:n"}}, []string{"set:L1lc:2"}),
		linScenario([]string{pair, "sub:B:e1f1:L1lc:lc:d"}, [][]string{{"unsub:A:e1f1:L1lc:d"}, {"set:L1lc:2"}}, []string{"set:L1lc:1"}),
		linScenario([]string{"sub:B:e1f1:L1lc:lc:d"}, [][]string{{pair}, {"set:L1lc:2"}}, []string{"set:L1lc:1"}),
	}
	if thorough {
		scs = append(scs,
			linScenario([]string{pair, "sub:A:e2f1:L1lc:lc:d"}, [][]string{{"unsub:A:e1f1:L1lc:d"}, {"unsub:A:e2f1:L1lc:d"}}, []string{"set:L1lc:2"}),
			linScenario([]string{"sub:B:e1f1:L1lc:lc:d"}, [][]string{{pair}, {pair}, {"unsub:B:e1f1:L1lc:d"}}, []string{"set:L1lc:2"}),
			linScenario([]string{"bind:A:e1f1:L1lc:lc:d", "sub:B:e1f1:L1lc:lc:d"}, [][]string{{"write:A:e1f1:L1lc:limit:ack:2"}, {"sub:A:e1f1:L1lc:lc:d"}}, []string{"set:L1lc:1"}))
	}
	return append(scs, pairMatrix("C08", thorough)...)
}

func init() {
	engine.Register(&engine.Check{
		ID:        "C08",
		NeedsRace: true,
		Scenarios: func(c *engine.Ctx) []*engine.SScenario { return c08Scenarios(c.Thorough) },
		Run: func(c *engine.Ctx) *engine.Report {
			rep := &engine.Report{Level: "model_checking", Coverage: map[string]any{"exhaustive": true}}
			for _, d := range c08Drivers(c.Thorough) {
				depth := 64
				if d.Name == "subscription-ids" {
					depth = 6
					if c.Thorough {
						depth = 8
					}
				}
				st := engine.RunHistories(c, d, depth, rep)
				engine.AddHCoverage(rep, d.Name, st, len(d.Alphabet))
				rep.Coverage["closure_reached"] = st.Closure
				rep.Coverage["max_depth"] = st.MaxDepth
			}
			mergeS(c, rep, c08Scenarios(c.Thorough), engine.SPlan{Bounds: boundsFor(c, []int{0, 1, 2}, []int{0, 1, 2, 3, -1}), Race: true, RaceMaxBound: 1, RaceFuncs: []string{"SubscriptionManager"}})
			rep.Assumptions = []string{"alphabet: see coverage.histories; peers A and B use identical entity/feature numbers; every operation runs to quiescence (asynchronous event handlers included) before it is judged"}
			return rep
		},
		Drivers: func(c *engine.Ctx) []*engine.HDriver { return c08Drivers(c.Thorough) },
	})
}
