package checks

import (
	"fmt"
	"sort"
	"strings"
	"time"

	rt "github.com/enbility/spine-go/internal/verifrt"

	"github.com/enbility/spine-go/api"
	"github.com/enbility/spine-go/internal/verifh/engine"
	"github.com/enbility/spine-go/internal/verifh/world"
	"github.com/enbility/spine-go/model"
	"github.com/enbility/spine-go/spine"
	"github.com/enbility/spine-go/util"
)

// History part of C12: sequences of writes, verdicts (a callback may answer more than once), the approval
// timeout, and removal + re-establishment of the writer's connection. A re-connected peer counts its
// messages from the start again, so a write of the new connection may carry the message counter of a write
// of the old one: whatever the stack remembers about the old write must not decide the new one.

type apWorld struct {
	trackOld bool // messages of the previous connection are kept for stale verdicts
	w        *world.World
	f        api.FeatureLocalInterface
	n        int
	msgs     map[string]*api.Message // "cb/k" -> message presented to callback cb for write k (current connection)
	shown    map[string]int
	conn     bool
	pending  map[int]map[int]bool // model: write k -> callbacks that approved
	used     map[int]bool         // counters used on the current connection
	answered map[string]bool      // "cb/k": the callback has given its verdict on write k of the current connection
	val      int                  // model: value id stored
	ent2gone bool
	oldMsgs  map[string]*api.Message // messages of the previous connection the application may still hold
	req      map[int]int             // model: number of callbacks write k was presented to
	extra    int                     // callbacks added after set-up
}

//go:norace
func (a *apWorld) present(cb int, m *api.Message) {
	k := int(*m.RequestHeader.MsgCounter) - 100
	a.msgs[fmt.Sprintf("%d/%d", cb, k)] = m
	a.shown[fmt.Sprintf("%d/%d", cb, k)]++
}

func newAPWorld(n int) *apWorld {
	a := &apWorld{w: stdWorld(false, "A", "B"), n: n, msgs: map[string]*api.Message{}, shown: map[string]int{}, conn: true, pending: map[int]map[int]bool{}, used: map[int]bool{}, answered: map[string]bool{}, val: 1, oldMsgs: map[string]*api.Message{}, req: map[int]int{}}
	a.f = a.w.L.FeatureByAddress(srvAddr("L1lc", true))
	a.f.SetData(fnLimit, limitList(1, 1, 2))
	for i := 0; i < n; i++ {
		i := i
		_ = a.f.AddWriteApprovalCallback(func(m *api.Message) { a.present(i, m) })
	}
	pe := a.w.Peers["A"]
	pe.Deliver(pe.BindCall(cliAddr("A", "e1f1", true), srvAddr("L1lc", true), model.FeatureTypeTypeLoadControl))
	rt.WaitIdle()
	return a
}

func (a *apWorld) apply(op string, judge bool) (viol []string, digest string, effect bool) {
	f := strings.Split(op, ":")
	pe := a.w.Peers["A"]
	mark := a.w.Mark()
	var exp []expOut
	res := func(k int, ok bool) {
		e := expOut{conn: pe.W.Name, class: "result", ref: int64(100 + k), err: 1}
		if ok {
			e.err = 0
		}
		exp = append(exp, e)
	}
	switch f[0] {
	case "w":
		k := atoi(f[1])
		if !a.conn || a.used[k] {
			break
		}
		effect = true
		a.used[k] = true
		a.pending[k] = map[int]bool{}
		a.req[k] = a.n + a.extra
		for i := 0; i <= a.n+1; i++ {
			delete(a.shown, fmt.Sprintf("%d/%d", i, k))
		}
		pe.SetCounter(uint64(100 + k - 1))
		d := pe.Datagram(cliAddr("A", "e1f1", true), srvAddr("L1lc", true), model.CmdClassifierTypeWrite, true, nil, model.CmdType{LoadControlLimitListData: limitList(2+k, 1, 2)})
		pe.Deliver(d)
		rt.WaitIdle()
		for i := 0; i < a.n+a.extra; i++ {
			if c := a.shown[fmt.Sprintf("%d/%d", i, k)]; c != 1 && judge {
				viol = append(viol, fmt.Sprintf("a write was not presented exactly once to every callback | callback=%d times=%d op=%s", i, c, op))
			}
		}
	case "ap", "dn":
		cb, k := atoi(f[1]), atoi(f[2])
		m := a.msgs[fmt.Sprintf("%d/%d", cb, k)]
		// every callback answers a write at most once: ApproveOrDenyWrite does not say which callback is
		// answering, so the stack can only count verdicts (a second answer of one callback is outside the contract)
		if m == nil || a.answered[fmt.Sprintf("%d/%d", cb, k)] {
			break
		}
		a.answered[fmt.Sprintf("%d/%d", cb, k)] = true
		effect = true
		if f[0] == "ap" {
			a.f.ApproveOrDenyWrite(m, model.ErrorType{ErrorNumber: 0})
			if p, ok := a.pending[k]; ok {
				p[cb] = true
				if len(p) == a.req[k] { // every callback the write was presented to
					delete(a.pending, k)
					a.val = 2 + k
					res(k, true)
				}
			}
		} else {
			a.f.ApproveOrDenyWrite(m, model.ErrorType{ErrorNumber: 7})
			if _, ok := a.pending[k]; ok {
				delete(a.pending, k)
				res(k, false)
			}
		}
	case "apold":
		// the application answers a write of the PREVIOUS connection (it still holds that message) after the peer
		// came back and a write with the same counter is pending again: the old write is gone, the verdict is void
		cb, k := atoi(f[1]), atoi(f[2])
		m := a.oldMsgs[fmt.Sprintf("%d/%d", cb, k)]
		if m == nil {
			break
		}
		effect = true
		delete(a.oldMsgs, fmt.Sprintf("%d/%d", cb, k))
		a.f.ApproveOrDenyWrite(m, model.ErrorType{ErrorNumber: 0})
	case "addcb":
		// one more approval callback is registered while writes may be pending: they keep the set they were presented to
		if a.extra >= 1 {
			break
		}
		effect = true
		i := a.n + a.extra
		a.extra++
		_ = a.f.AddWriteApprovalCallback(func(m *api.Message) { a.present(i, m) })
	case "fire":
		var ks []int
		for k := range a.pending {
			ks = append(ks, k)
		}
		sort.Ints(ks)
		for _, k := range ks {
			effect = true
			res(k, false)
		}
		a.pending = map[int]map[int]bool{}
		rt.Advance(time.Minute)
	case "entrm2":
		// the peer announces the removal of ANOTHER of its entities: the pending writes of entity [1] are independent of it
		if a.conn && !a.ent2gone {
			effect = true
			a.ent2gone = true
			st := model.NetworkManagementStateChangeTypeRemoved
			cmd := model.CmdType{
				Function:                            util.Ptr(model.FunctionTypeNodeManagementDetailedDiscoveryData),
				Filter:                              []model.FilterType{*model.NewFilterTypePartial()},
				NodeManagementDetailedDiscoveryData: pe.DiscoveryData([]world.EntSpec{{Addr: []uint{2}, Type: model.EntityTypeTypeCEM}}, false, &st),
			}
			pe.Deliver(pe.Datagram(pe.NM(), world.LocalNM(), model.CmdClassifierTypeNotify, false, nil, cmd))
		}
	case "disc":
		if a.conn {
			effect = true
			a.conn = false
			a.ent2gone = false
			a.pending = map[int]map[int]bool{}
			a.w.L.RemoveRemoteDeviceConnection("A")
		}
	case "reconn":
		if !a.conn {
			effect = true
			a.conn = true
			a.used = map[int]bool{}
			for k, m := range a.msgs {
				if !a.answered[k] && a.trackOld {
					a.oldMsgs[k] = m
				}
			}
			a.msgs = map[string]*api.Message{}
			a.answered = map[string]bool{}
			pe = a.w.ConnectAndAnnounce("A", "dA", []world.EntSpec{clientEntity([]uint{1}), clientEntity([]uint{2})})
			rt.WaitIdle()
			pe.Deliver(pe.BindCall(cliAddr("A", "e1f1", true), srvAddr("L1lc", true), model.FeatureTypeTypeLoadControl))
			judge = false
		}
	}
	rt.WaitIdle()
	rt.JoinFinished()
	digest = fmt.Sprintf("%s:%v:%d", f[0], effect, len(exp))
	if !judge {
		return nil, digest, effect
	}
	var outs []world.Out
	for _, o := range a.w.Since(mark) {
		if o.Class == "result" {
			outs = append(outs, o)
		}
	}
	for _, s := range matchOuts(outs, exp) {
		viol = append(viol, s+" | op="+op)
	}
	if got, want := world.JSON(a.f.DataCopy(fnLimit)), world.JSON(limitList(a.val, 1, 2)); got != want {
		viol = append(viol, fmt.Sprintf("stored data does not correspond to the outcomes | want value id %d got %s op=%s", a.val, got, op))
	}
	return
}

func (a *apWorld) key() string {
	s := spine.VerifFeatureState(a.f)
	var ms []string
	for k := range a.msgs {
		ms = append(ms, k)
	}
	sort.Strings(ms)
	var us []int
	for k := range a.used {
		us = append(us, k)
	}
	sort.Ints(us)
	for k := range a.answered {
		ms = append(ms, "answered "+k)
	}
	sort.Strings(ms)
	var om []string
	for k := range a.oldMsgs {
		om = append(om, k)
	}
	sort.Strings(om)
	return fmt.Sprintf("old=%v extra=%d req=%v ", om, a.extra, a.req) + fmt.Sprintf("%s conn=%v ent2gone=%v val=%s shown=%v used=%v timers=%d", s[:strings.Index(s, " cbs=")], a.conn, a.ent2gone, world.JSON(a.f.DataCopy(fnLimit)), ms, us, rt.PendingTimers())
}

// apDriver: histories of writes, verdicts, timeouts and connection changes on a feature with n approval callbacks.
// add: a callback may be registered late (it then answers like the others); old: verdicts for the messages of
// the previous connection. Both multiply the state space, the quick tier gives each its own small driver.
func apDriver(n int, writes int, add, old bool) *engine.HDriver {
	var alpha []string
	for k := 0; k < writes; k++ {
		alpha = append(alpha, fmt.Sprintf("w:%d", k))
	}
	cbs := n
	if add {
		cbs++
	}
	for k := 0; k < writes; k++ {
		for cb := 0; cb < cbs; cb++ {
			alpha = append(alpha, fmt.Sprintf("ap:%d:%d", cb, k), fmt.Sprintf("dn:%d:%d", cb, k))
		}
	}
	alpha = append(alpha, "fire", "disc", "reconn", "entrm2")
	name := fmt.Sprintf("approval-histories callbacks=%d writes=%d", n, writes)
	if add {
		alpha = append(alpha, "addcb")
		name += " +late-callback"
	}
	if old {
		for cb := 0; cb < n; cb++ {
			alpha = append(alpha, fmt.Sprintf("apold:%d:0", cb))
		}
		name += " +stale-verdicts"
	}
	return &engine.HDriver{Name: name, Alphabet: alpha,
		Step: func(hist []string, op string) engine.HStep {
			a := newAPWorld(n)
			a.trackOld = old
			for _, h := range hist {
				a.apply(h, false)
			}
			var st engine.HStep
			if op != "" {
				st.Violations, st.Digest, st.Effect = a.apply(op, true)
			}
			st.Key = a.key()
			return st
		}}
}

func c12Drivers(thorough bool) []*engine.HDriver {
	mk := apDriver
	if thorough {
		return []*engine.HDriver{mk(2, 2, false, false), mk(3, 1, false, false), mk(1, 2, true, false), mk(1, 1, false, true), mk(2, 1, true, true), mk(2, 2, true, true), mk(3, 1, true, true)}
	}
	return []*engine.HDriver{mk(2, 2, false, false), mk(3, 1, false, false), mk(1, 2, true, false), mk(1, 1, false, true), mk(2, 1, true, true)}
}
