package checks

import (
	"encoding/json"
	"fmt"
	"reflect"
	"sort"
	"strings"
	"time"

	rt "github.com/enbility/spine-go/internal/verifrt"

	"github.com/enbility/spine-go/api"
	"github.com/enbility/spine-go/internal/verifh/engine"
	"github.com/enbility/spine-go/internal/verifh/gen"
	"github.com/enbility/spine-go/internal/verifh/refl"
	"github.com/enbility/spine-go/internal/verifrt/vtime"
	"github.com/enbility/spine-go/model"
	"github.com/enbility/spine-go/spine"
)

// C18 — wire format and function tables are coherent for every function.

type fnReg struct {
	ft model.FeatureTypeType
	fd api.FunctionDataCmdInterface
}

// acceptedFeatureTypes calls the factory for every FeatureTypeType constant under recover.
func acceptedFeatureTypes() (types []model.FeatureTypeType, regs []fnReg) {
	for _, ft := range gen.FeatureTypeTypeValues {
		func() {
			defer func() { recover() }()
			fds := spine.CreateFunctionData[api.FunctionDataCmdInterface](ft)
			types = append(types, ft)
			for _, fd := range fds {
				regs = append(regs, fnReg{ft, fd})
			}
		}()
	}
	return
}

func selectorsType(fn model.FunctionType) (reflect.Type, bool) {
	t, ok := gen.StructTypes[refl.Title(string(fn))+"SelectorsType"]
	return t, ok
}

func elementsType(fn model.FunctionType) (reflect.Type, bool) {
	name := refl.Title(string(fn))
	if strings.HasSuffix(name, "ListData") {
		name = strings.TrimSuffix(name, "ListData") + "Data"
	}
	t, ok := gen.StructTypes[name+"ElementsType"]
	return t, ok
}

type cmdShape struct {
	name                      string
	build                     func(fd api.FunctionDataCmdInterface, sel, el any) model.CmdType
	needSel, needEl           bool
	partial, del              bool
	partialSel, delSel, anyEl bool
}

var cmdShapes = []cmdShape{
	{name: "read", build: func(fd api.FunctionDataCmdInterface, s, e any) model.CmdType { return fd.ReadCmdType(nil, nil) }},
	{name: "read+selector", needSel: true, partial: true, partialSel: true, build: func(fd api.FunctionDataCmdInterface, s, e any) model.CmdType { return fd.ReadCmdType(s, nil) }},
	{name: "read+elements", needEl: true, partial: true, anyEl: true, build: func(fd api.FunctionDataCmdInterface, s, e any) model.CmdType { return fd.ReadCmdType(nil, e) }},
	{name: "reply", build: func(fd api.FunctionDataCmdInterface, s, e any) model.CmdType { return fd.ReplyCmdType(false) }},
	{name: "notify/write full", build: func(fd api.FunctionDataCmdInterface, s, e any) model.CmdType {
		return fd.NotifyOrWriteCmdType(nil, nil, false, nil)
	}},
	{name: "partial", partial: true, build: func(fd api.FunctionDataCmdInterface, s, e any) model.CmdType {
		return fd.NotifyOrWriteCmdType(nil, nil, true, nil)
	}},
	{name: "partial+selector", needSel: true, partial: true, partialSel: true, build: func(fd api.FunctionDataCmdInterface, s, e any) model.CmdType {
		return fd.NotifyOrWriteCmdType(nil, s, false, nil)
	}},
	{name: "delete+selector", needSel: true, del: true, delSel: true, build: func(fd api.FunctionDataCmdInterface, s, e any) model.CmdType {
		return fd.NotifyOrWriteCmdType(s, nil, false, nil)
	}},
	{name: "delete+elements", needEl: true, del: true, anyEl: true, build: func(fd api.FunctionDataCmdInterface, s, e any) model.CmdType {
		return fd.NotifyOrWriteCmdType(nil, nil, false, e)
	}},
}

func c18Families(thorough bool) []*engine.IFamily {
	cmds := &engine.IFamily{Name: "commands", Chunks: 16,
		Rule: "every function registered by CreateFunctionData for every feature type the factory accepts x {read, read+selector, read+elements, reply, notify/write full, partial, partial+selector, delete+selector, delete+elements}; selector/elements values generated reflectively (all fields set) from the conventionally named types; non-trivial: shapes with a filter",
		Run: func(chunk int) engine.IResult {
			var r engine.IResult
			_, regs := acceptedFeatureTypes()
			now := staticNow
			vtime.StaticNow = &now
			defer func() { vtime.StaticNow = nil }()
			registered := map[model.FunctionType]bool{}
			for _, reg := range regs {
				registered[reg.fd.FunctionType()] = true
			}
			for i, reg := range regs {
				if i%16 != chunk {
					continue
				}
				fd := reg.fd
				fn := fd.FunctionType()
				// give the function data a value so that reply / notify carry a payload
				payloadT := reflect.TypeOf(fd.DataCopyAny()).Elem()
				data := reflect.New(payloadT)
				data.Elem().Set(refl.Fill(payloadT, 2, 1))
				if _, err := fd.UpdateDataAny(false, true, data.Interface(), nil, nil); err != nil {
					r.Fails = append(r.Fails, engine.IFail{Key: "cannot store generated data | " + string(fn), Msg: err.String()})
					continue
				}
				selT, hasSel := selectorsType(fn)
				elT, hasEl := elementsType(fn)
				// when a function X...Data has a list sibling X...ListData, the one elements
				// field of the filter belongs to the list function
				if !strings.HasSuffix(string(fn), "ListData") && registered[model.FunctionType(strings.TrimSuffix(string(fn), "Data")+"ListData")] {
					hasEl = false
				}
				for _, sh := range cmdShapes {
					if (sh.needSel && !hasSel) || (sh.needEl && !hasEl) {
						continue
					}
					var sel, el any
					if sh.needSel {
						p := reflect.New(selT)
						p.Elem().Set(refl.Fill(selT, 2, 1))
						sel = p.Interface()
					}
					if sh.needEl {
						p := reflect.New(elT)
						p.Elem().Set(refl.Fill(elT, 2, 1))
						el = p.Interface()
					}
					r.Evals++
					if sh.partial || sh.del {
						r.Nontrivial++
					}
					fail := func(msg string) {
						r.NFails++
						r.Fails = append(r.Fails, engine.IFail{Key: fmt.Sprintf("%s | function=%s shape=%s", msg, fn, sh.name), Msg: fmt.Sprintf("feature type %s", reg.ft), Input: string(fn) + "/" + sh.name})
					}
					var cmd model.CmdType
					panicked := func() (p any) {
						defer func() { p = recover() }()
						cmd = sh.build(fd, sel, el)
						return nil
					}()
					if panicked != nil {
						fail("building the command panics")
						continue
					}
					b, err := json.Marshal(cmd)
					if err != nil {
						fail("the command cannot be encoded")
						continue
					}
					var back model.CmdType
					if err := json.Unmarshal(b, &back); err != nil {
						fail("the encoded command cannot be decoded")
						continue
					}
					if len(r.Samples) < 1 && sh.name == "partial+selector" {
						s := string(b)
						if len(s) > 300 {
							s = s[:300]
						}
						r.Samples = append(r.Samples, s)
					}
					cd, err := back.Data()
					if err != nil || cd.Function == nil || *cd.Function != fn {
						fail("the decoded command is not recognised as the same function")
						continue
					}
					if reflect.TypeOf(cd.Value) != reflect.PtrTo(payloadT) {
						fail("the decoded command carries another payload type")
						continue
					}
					if sh.name == "reply" || sh.name == "notify/write full" {
						if d := refl.EqualModulo(reflect.ValueOf(cd.Value).Elem(), data.Elem(), staticNow); d != "" {
							fail("the decoded payload differs from the stored data")
							continue
						}
					}
					fp, fdel := back.ExtractFilter()
					if (fp != nil) != sh.partial || (fdel != nil) != sh.del {
						fail("the decoded command yields another partial/delete filter split")
						continue
					}
					check := func(f *model.FilterType, wantSel, wantEl any) {
						if wantSel == nil && wantEl == nil {
							return
						}
						fdata, err := f.Data()
						if err != nil {
							fail("the decoded filter is not recognised (no selector/elements field for the function)")
							return
						}
						if fdata.Function == nil || *fdata.Function != fn {
							fail("the decoded filter names another function")
							return
						}
						if wantSel != nil && (fdata.Selector == nil || reflect.TypeOf(fdata.Selector) != reflect.TypeOf(wantSel) || refl.EqualModulo(reflect.ValueOf(fdata.Selector).Elem(), reflect.ValueOf(wantSel).Elem(), staticNow) != "") {
							fail("the decoded filter yields other selectors")
							return
						}
						if wantEl != nil && (fdata.Elements == nil || reflect.TypeOf(fdata.Elements) != reflect.TypeOf(wantEl) || refl.EqualModulo(reflect.ValueOf(fdata.Elements).Elem(), reflect.ValueOf(wantEl).Elem(), staticNow) != "") {
							fail("the decoded filter yields other elements")
							return
						}
					}
					if sh.partial {
						var ws, we any
						if sh.partialSel {
							ws = sel
						}
						if sh.anyEl {
							we = el
						}
						check(fp, ws, we)
					}
					if sh.del {
						var ws, we any
						if sh.delSel {
							ws = sel
						}
						if sh.anyEl {
							we = el
						}
						check(fdel, ws, we)
					}
				}
			}
			return r
		}}
	var names []string
	for n := range gen.StructTypes {
		names = append(names, n)
	}
	sort.Strings(names)
	depth := 3
	values := &engine.IFamily{Name: "values", Chunks: 32,
		Rule: "every exported struct type of package model (payload, selector, elements and nested types) x {zero, every single field set, every list field with length 0/1/2, all fields set}, nested to depth 3, encoded and decoded with encoding/json under a fixed clock; non-trivial: at least one field set",
		Run: func(chunk int) engine.IResult {
			var r engine.IResult
			now := staticNow
			vtime.StaticNow = &now
			defer func() { vtime.StaticNow = nil }()
			for i, n := range names {
				if i%32 != chunk {
					continue
				}
				t := gen.StructTypes[n]
				for vi, v := range refl.Variants(t, depth) {
					r.Evals++
					if vi > 0 {
						r.Nontrivial++
					}
					fail := func(msg, detail string) {
						r.NFails++
						if len(r.Fails) < 40 {
							r.Fails = append(r.Fails, engine.IFail{Key: msg + " | type=" + n, Msg: detail, Input: n})
						}
					}
					p := reflect.New(t)
					p.Elem().Set(v)
					b, err := json.Marshal(p.Interface())
					if err != nil {
						fail("a value cannot be encoded", err.Error())
						break
					}
					back := reflect.New(t)
					if err := json.Unmarshal(b, back.Interface()); err != nil {
						fail("an encoded value cannot be decoded", err.Error()+" "+string(b))
						break
					}
					if d := refl.EqualModulo(back.Elem(), v, now); d != "" {
						fail("decoding an encoded value yields a different value", d)
						break
					}
					if len(r.Samples) < 1 && vi == 1 {
						s := string(b)
						if len(s) > 200 {
							s = s[:200]
						}
						r.Samples = append(r.Samples, n+": "+s)
					}
				}
			}
			return r
		}}
	// time periods whose end lies anywhere between a second and nine years from the clock, in both directions: the
	// re-expressed relative end time has to denote the same instant (to the second) after encode and decode
	periods := &engine.IFamily{Name: "time-periods-near-and-far", Chunks: 1,
		Rule: "TimePeriodType without start time, end time = clock + d (absolute, as the stack holds every received relative end time) and end time given as the relative duration d, for d over {1 s, 59 s, 1 min, 1 h, 23 h 59 min 59 s, every whole number of days 1..400, 500..3200 in steps of 100} in the future and in the past, and the same with a start time; encoded and decoded under a frozen clock; the decoded end time denotes the same instant to the second (durations of 3277 days and more are C19's recorded finding and excluded); non-trivial: all",
		Run: func(int) engine.IResult {
			var r engine.IResult
			now := staticNow
			vtime.StaticNow = &now
			defer func() { vtime.StaticNow = nil }()
			ds := []time.Duration{time.Second, 59 * time.Second, time.Minute, time.Hour, 24*time.Hour - time.Second}
			for d := 1; d <= 400; d++ {
				ds = append(ds, time.Duration(d)*24*time.Hour)
			}
			for d := 500; d <= 3200; d += 100 {
				ds = append(ds, time.Duration(d)*24*time.Hour+90*time.Minute)
			}
			fail := func(msg, detail, in string) {
				r.NFails++
				if len(r.Fails) < 40 {
					r.Fails = append(r.Fails, engine.IFail{Key: msg, Msg: detail, Input: in})
				}
			}
			for _, d0 := range ds {
				for _, d := range []time.Duration{d0, -d0} {
					end := now.Add(d)
					forms := map[string]*model.TimePeriodType{
						"absolute end": {EndTime: model.NewAbsoluteOrRelativeTimeTypeFromTime(end)},
						"start and end": {StartTime: model.NewAbsoluteOrRelativeTimeTypeFromTime(now.Add(-time.Hour)), EndTime: model.NewAbsoluteOrRelativeTimeTypeFromTime(end)},
					}
					if d > 0 {
						forms["relative end"] = &model.TimePeriodType{EndTime: model.NewAbsoluteOrRelativeTimeTypeFromDuration(d)}
					}
					for name, tp := range forms {
						r.Evals++
						r.Nontrivial++
						b, err := json.Marshal(tp)
						if err != nil {
							fail("a time period cannot be encoded | form="+name, err.Error(), d.String())
							continue
						}
						var back model.TimePeriodType
						if err := json.Unmarshal(b, &back); err != nil {
							fail("an encoded time period cannot be decoded | form="+name, err.Error()+" "+string(b), d.String())
							continue
						}
						if back.EndTime == nil {
							fail("the end time of a time period is lost | form="+name, string(b), d.String())
							continue
						}
						var got time.Time
						if t, err := back.EndTime.GetTime(); err == nil {
							got = t
						} else if dd, err := back.EndTime.GetTimeDuration(); err == nil {
							got = now.Add(dd)
						} else {
							fail("the decoded end time of a time period is neither a time nor a duration | form="+name, string(b), d.String())
							continue
						}
						if diff := got.Sub(end); diff > time.Second || diff < -time.Second {
							fail("the end time of a time period denotes another instant after encode and decode | form="+name, fmt.Sprintf("d=%v encoded=%s decoded end=%v expected=%v (off by %v)", d, b, got.UTC(), end.UTC(), diff), d.String())
						}
						if len(r.Samples) < 2 && d0 == 45*24*time.Hour {
							r.Samples = append(r.Samples, name+": "+string(b))
						}
					}
				}
			}
			return r
		}}
	fams := []*engine.IFamily{cmds, values, periods}
	// the receiving side of the same stack: the commands of the first family, delivered as datagrams of a peer, are
	// recognised by message handling (a read is answered with the reply of that function, a notify or write with
	// exactly one result when an acknowledgement is requested) — generator and response oracle shared with C01
	for _, f := range c01Families(thorough) {
		if f.Name != "commands-built-by-the-api" {
			continue
		}
		inner := f.Run
		fams = append(fams, &engine.IFamily{Name: "commands-received", Chunks: f.Chunks,
			Rule: "every command of the family 'commands' encoded, delivered on a peer's connection and processed by the stack: recognised as that function (reply to a read names the function and carries its data; notify/write accepted or rejected with exactly one result)",
			Run: func(chunk int) engine.IResult {
				r := inner(chunk)
				var keep []engine.IFail
				for _, x := range r.Fails {
					if !strings.HasPrefix(x.Key, "panic in ") {
						keep = append(keep, x)
					}
				}
				r.Fails, r.NFails = keep, int64(len(keep))
				return r
			}})
	}
	return fams
}

var staticNow = time.Date(2024, 3, 1, 12, 0, 0, 0, time.UTC)

// c18Digest builds every command shape for one function, sends it through JSON and renders what comes back.
func c18Digest(fd api.FunctionDataCmdInterface) string {
	fn := fd.FunctionType()
	payloadT := reflect.TypeOf(fd.DataCopyAny()).Elem()
	data := reflect.New(payloadT)
	data.Elem().Set(refl.Fill(payloadT, 2, 1))
	_, _ = fd.UpdateDataAny(false, true, data.Interface(), nil, nil)
	selT, hasSel := selectorsType(fn)
	elT, hasEl := elementsType(fn)
	var out []string
	for _, sh := range cmdShapes {
		if (sh.needSel && !hasSel) || (sh.needEl && !hasEl) {
			continue
		}
		var sel, el any
		if sh.needSel {
			p := reflect.New(selT)
			p.Elem().Set(refl.Fill(selT, 2, 1))
			sel = p.Interface()
		}
		if sh.needEl {
			p := reflect.New(elT)
			p.Elem().Set(refl.Fill(elT, 2, 1))
			el = p.Interface()
		}
		cmd := sh.build(fd, sel, el)
		b, err := json.Marshal(cmd)
		var back model.CmdType
		err2 := json.Unmarshal(b, &back)
		cd, err3 := back.Data()
		f := "?"
		if err3 == nil && cd.Function != nil {
			f = string(*cd.Function)
		}
		fp, fdel := back.ExtractFilter()
		out = append(out, fmt.Sprint(sh.name, "=", string(b), err, err2, f, fp != nil, fdel != nil))
	}
	return strings.Join(out, "\n")
}

// c18Scenarios: builders, recognisers and the JSON codec keep no state between calls: three goroutines that
// build, encode and decode commands of unrelated functions get what they get alone (race build on every schedule).
func c18Scenarios() []*engine.SScenario {
	return []*engine.SScenario{{Name: "three goroutines build, encode and decode commands of unrelated functions", Run: func(cfg rt.Config) rt.Outcome {
		var viol []string
		res := rt.Execute(cfg, func() {
			now := staticNow
			vtime.StaticNow = &now
			defer func() { vtime.StaticNow = nil }()
			_, regs := acceptedFeatureTypes()
			pick := func(fn model.FunctionType) api.FunctionDataCmdInterface {
				for _, r := range regs {
					if r.fd.FunctionType() == fn {
						return r.fd
					}
				}
				panic("no " + fn)
			}
			fns := []model.FunctionType{model.FunctionTypeLoadControlLimitListData, model.FunctionTypeMeasurementListData, model.FunctionTypeTimeSeriesListData}
			fds := []api.FunctionDataCmdInterface{pick(fns[0]), pick(fns[1]), pick(fns[2])}
			want := []string{c18Digest(fds[0]), c18Digest(fds[1]), c18Digest(fds[2])}
			got := make([]string, 3)
			rt.BeginExplore()
			for i := range fds {
				i := i
				rt.Go(func() {
					rt.Yield()
					got[i] = c18Digest(fds[i])
				})
			}
			rt.WaitIdle()
			rt.JoinFinished()
			for i := range want {
				if got[i] != want[i] {
					viol = append(viol, fmt.Sprintf("building and decoding a command gives another result when other goroutines do the same for other functions | function=%s", fns[i]))
				}
			}
		})
		return rt.Outcome{Res: res, Violations: append(viol, panicsAndDeadlocks(res)...), Digest: "ok"}
	}}}
}

func init() {
	engine.Register(&engine.Check{
		ID:        "C18",
		NeedsRace: true,
		Scenarios: func(c *engine.Ctx) []*engine.SScenario { return c18Scenarios() },
		Families:  func(c *engine.Ctx) []*engine.IFamily { return c18Families(c.Thorough) },
		Run: func(c *engine.Ctx) *engine.Report {
			rep := &engine.Report{Level: "exploration", Coverage: map[string]any{}}
			types, regs := acceptedFeatureTypes()
			rep.Coverage["feature_types_accepted"] = len(types)
			rep.Coverage["function_registrations"] = len(regs)
			rep.Coverage["model_struct_types"] = len(gen.StructTypes)
			engine.RunFamilies(c, c18Families(c.Thorough), rep)
			ev, _ := rep.Coverage["evaluations"].(int64)
			rep.Coverage["states"] = 0
			rep.Coverage["transitions"] = int(ev)
			mergeS(c, rep, c18Scenarios(), engine.SPlan{Bounds: []int{0, 1}, Race: true, RaceProp: true})
			rep.Assumptions = []string{"feature types, functions and model types are discovered from the working tree (generated registry + factory under recover), not hard-coded; selector and elements types are found by the naming convention <Function>SelectorsType / <Function without List>ElementsType"}
			return rep
		},
	})
}
