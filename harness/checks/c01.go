package checks

import (
	"fmt"
	"reflect"
	"sort"
	"strings"
	"time"

	rt "github.com/enbility/spine-go/internal/verifrt"

	"github.com/enbility/spine-go/api"
	"github.com/enbility/spine-go/internal/verifh/engine"
	"github.com/enbility/spine-go/internal/verifh/refl"
	"github.com/enbility/spine-go/internal/verifh/world"
	"github.com/enbility/spine-go/internal/verifrt/vtime"
	"github.com/enbility/spine-go/model"
	"github.com/enbility/spine-go/spine"
	"github.com/enbility/spine-go/util"
)

// C01 — every inbound request gets exactly the one correctly addressed response.

type c01Type struct {
	ft  model.FeatureTypeType
	fns []api.FunctionDataCmdInterface
}

func c01Types() []c01Type {
	types, regs := acceptedFeatureTypes()
	var out []c01Type
	for _, t := range types {
		if t == model.FeatureTypeTypeNodeManagement || t == model.FeatureTypeTypeGeneric {
			continue
		}
		ct := c01Type{ft: t}
		for _, r := range regs {
			if r.ft == t {
				ct.fns = append(ct.fns, r.fd)
			}
		}
		out = append(out, ct)
	}
	return out
}

type c01World struct {
	twoCmds bool // every delivered datagram carries its cmd twice
	w       *world.World
	types   []c01Type
	srv     map[model.FeatureTypeType]api.FeatureLocalInterface
	cli     map[model.FeatureTypeType]api.FeatureLocalInterface
	writab  map[model.FunctionType]bool
}

// peers announce on entity [1] for type i: client feature 2i+1, server feature 2i+2
func c01PeerEntity(types []c01Type) world.EntSpec {
	es := world.EntSpec{Addr: []uint{1}, Type: model.EntityTypeTypeCEM}
	for i, t := range types {
		var fns []world.FuncSpec
		for _, fd := range t.fns {
			fns = append(fns, world.FuncSpec{Fn: fd.FunctionType(), R: true, W: fd.SupportsPartialWrite()})
		}
		es.Feats = append(es.Feats, world.FeatSpec{Num: uint(2*i + 1), Type: t.ft, Role: model.RoleTypeClient},
			world.FeatSpec{Num: uint(2*i + 2), Type: t.ft, Role: model.RoleTypeServer, Funcs: fns})
	}
	return es
}

func newC01World(types []c01Type, bound bool) *c01World { return newC01WorldEv(types, bound, false) }

func newC01WorldEv(types []c01Type, bound, events bool) *c01World {
	c := &c01World{w: world.New(events), types: types, srv: map[model.FeatureTypeType]api.FeatureLocalInterface{}, cli: map[model.FeatureTypeType]api.FeatureLocalInterface{}, writab: map[model.FunctionType]bool{}}
	e1 := c.w.AddLocalEntity([]uint{1}, model.EntityTypeTypeCEM, 0)
	e2 := c.w.AddLocalEntity([]uint{2}, model.EntityTypeTypeCEM, 0)
	for _, t := range types {
		s := e1.GetOrAddFeature(t.ft, model.RoleTypeServer)
		for _, fd := range t.fns {
			if t.ft == model.FeatureTypeTypeDeviceDiagnosis && fd.FunctionType() == model.FunctionTypeDeviceDiagnosisHeartbeatData {
				continue // adding it would start the heartbeat (C16's subject)
			}
			w := fd.SupportsPartialWrite()
			s.AddFunctionType(fd.FunctionType(), true, w)
			c.writab[fd.FunctionType()] = w
			pt := reflect.TypeOf(fd.DataCopyAny()).Elem()
			v := reflect.New(pt)
			v.Elem().Set(refl.Fill(pt, 2, 1))
			s.SetData(fd.FunctionType(), v.Interface())
		}
		c.srv[t.ft] = s
		c.cli[t.ft] = e2.GetOrAddFeature(t.ft, model.RoleTypeClient)
	}
	pe := c01PeerEntity(types)
	for _, p := range []string{"A", "B"} {
		c.w.ConnectAndAnnounce(p, "d"+p, []world.EntSpec{pe})
	}
	if bound {
		a, b := c.w.Peers["A"], c.w.Peers["B"]
		for i, t := range types {
			a.Deliver(a.BindCall(world.FAddr("dA", []uint{1}, uint(2*i+1)), c.srv[t.ft].Address(), t.ft))
			a.Deliver(a.SubscribeCall(world.FAddr("dA", []uint{1}, uint(2*i+1)), c.srv[t.ft].Address(), t.ft))
			b.Deliver(b.SubscribeCall(world.FAddr("dB", []uint{1}, uint(2*i+1)), c.srv[t.ft].Address(), t.ft))
		}
	}
	rt.WaitIdle()
	return c
}

// judge one delivered datagram from the responses (reply/result) on all connections.
type c01Case struct {
	class    model.CmdClassifierType
	ack      bool
	ackFalse bool   // the header carries ackRequest=false (must be treated like an absent one)
	dest     string // server | client | nofeature | noentity | nm
	fn       model.FunctionType
	peer     string
	expect   string // reply | ok | err | none | atmostone (structural only)
	payload  string // expected reply payload (canonical JSON), "" = don't compare
}

func (c *c01World) deliver(cs c01Case, src, dst *model.FeatureAddressType, cmd model.CmdType, ref *model.MsgCounterType) []string {
	pe := c.w.Peers[cs.peer]
	m := c.w.Mark()
	d := pe.Datagram(src, dst, cs.class, cs.ack, ref, cmd)
	if c.twoCmds {
		// a datagram may carry several cmds; it is still ONE message with one message counter
		d.Payload.Cmd = append(d.Payload.Cmd, cmd)
	}
	if cs.ackFalse {
		d.Header.AckRequest = util.Ptr(false)
	}
	pe.Deliver(d)
	rt.WaitIdle()
	var viol []string
	nReply, nOK, nErr := 0, 0, 0
	wantSrc := world.AddrStr(world.FAddr(world.LocalAddr, entOf(dst), uint(*dst.Feature)))
	for _, o := range c.w.Since(m) {
		if o.Class != "reply" && o.Class != "result" {
			continue // requests and notifications the stack sends on its own are not responses
		}
		if o.Ref != int64(*d.Header.MsgCounter) {
			continue // a response to something else (cannot happen in this driver; judged by R0 below through the count)
		}
		if o.Conn != pe.W.Name {
			viol = append(viol, "a response was written to another connection than the sender's | "+o.String())
			continue
		}
		if o.Dst != world.AddrStr(src) {
			viol = append(viol, fmt.Sprintf("a response is not addressed to the request's source feature | %s want dst %s", o, world.AddrStr(src)))
		}
		if o.Src != wantSrc {
			viol = append(viol, fmt.Sprintf("a response does not name the addressed local feature (with the local device address) as its source | %s want src %s", o, wantSrc))
		}
		switch {
		case o.Class == "reply":
			nReply++
			if cs.payload != "" {
				cd, err := o.Cmd.Data()
				if err != nil || cd.Function == nil || *cd.Function != cs.fn || normJSON(world.JSON(cd.Value)) != normJSON(cs.payload) {
					got := "?"
					if err == nil {
						got = world.JSON(cd.Value)
					}
					viol = append(viol, fmt.Sprintf("the reply does not carry the addressed function's current data | want %.300s got %.300s", cs.payload, got))
				}
			}
		case o.Err == 0:
			nOK++
		default:
			nErr++
		}
	}
	// also: responses referencing the request on other connections
	total := nReply + nOK + nErr
	got := fmt.Sprintf("replies=%d success=%d error=%d", nReply, nOK, nErr)
	switch cs.expect {
	case "reply":
		if nReply != 1 || total != 1 {
			viol = append(viol, "a read of a readable function of a server or special feature is not answered with exactly one reply | "+got)
		}
	case "ok":
		if nOK != 1 || total != 1 {
			viol = append(viol, "an accepted message with acknowledgement request is not answered with exactly one success result | "+got)
		}
	case "err":
		if nErr != 1 || total != 1 {
			viol = append(viol, "a rejected message is not answered with exactly one error result | "+got)
		}
	case "none":
		if total != 0 {
			viol = append(viol, "a message that requires no response was answered | "+got)
		}
	case "oneresult":
		// accepted or rejected is decided by the update rules (C02/C04): exactly one result either way
		if nReply != 0 || total != 1 {
			viol = append(viol, "a message with acknowledgement request is not answered with exactly one result | "+got)
		}
	case "resultiferr":
		if nReply != 0 || nOK != 0 || total > 1 {
			viol = append(viol, "a message without acknowledgement request is answered with something else than at most one error result | "+got)
		}
	case "atmostone":
		if total > 1 {
			viol = append(viol, "more than one response to one message | "+got)
		}
		if !cs.ack && nOK > 0 {
			viol = append(viol, "a success result although no acknowledgement was requested | "+got)
		}
	}
	return viol
}

func normJSON(s string) string {
	if s == "null" || s == "{}" {
		return "{}"
	}
	return s
}

func entOf(a *model.FeatureAddressType) []uint {
	var e []uint
	for _, x := range a.Entity {
		e = append(e, uint(x))
	}
	return e
}

func c01Families(thorough bool) []*engine.IFamily {
	types := c01Types()
	classes := []model.CmdClassifierType{model.CmdClassifierTypeRead, model.CmdClassifierTypeReply, model.CmdClassifierTypeNotify, model.CmdClassifierTypeWrite, model.CmdClassifierTypeCall, model.CmdClassifierTypeResult}
	matrix := &engine.IFamily{Name: "feature-matrix", Chunks: len(types) * 2,
		Rule: fmt.Sprintf("classifier {read,reply,notify,write,call,result} x every function registered for each of the %d feature types the factory accepts (local server and client feature of every type, all functions readable, list functions writable) x ackRequest {absent,true,false} x destination {server feature, client feature, non-existent feature, non-existent entity} x peer {A,B} x prior state {no bindings; A bound and subscribed, B subscribed}; non-trivial: a response is expected", len(types)),
		Run: func(chunk int) engine.IResult {
			var r engine.IResult
			now := staticNow
			vtime.StaticNow = &now
			defer func() { vtime.StaticNow = nil }()
			ti, bound := chunk/2, chunk%2 == 1
			t := types[ti]
			fail := func(cs c01Case, v string) {
				r.NFails++
				key := fmt.Sprintf("%s | classifier=%s destination=%s type=%s", strings.SplitN(v, " | ", 2)[0], cs.class, cs.dest, t.ft)
				for _, f := range r.Fails {
					if f.Key == key {
						return
					}
				}
				r.Fails = append(r.Fails, engine.IFail{Key: key, Msg: fmt.Sprintf("%s\nfunction=%s ack=%v peer=%s bound=%v", v, cs.fn, cs.ack, cs.peer, bound), Input: fmt.Sprintf("%s/%s/%s/%v/%s", cs.class, cs.fn, cs.dest, cs.ack, cs.peer)})
			}
			res := rt.Execute(rt.Config{Horizon: 2000000}, func() {
				c := newC01World(types, bound)
				for _, fd := range t.fns {
					fn := fd.FunctionType()
					if _, ok := c.writab[fn]; !ok {
						continue
					}
					pt := reflect.TypeOf(fd.DataCopyAny()).Elem()
					for _, peer := range []string{"A", "B"} {
						for _, class := range classes {
							for _, av := range []int{0, 1, 2} { // ackRequest absent, true, explicitly false
								ack, ackFalse := av == 1, av == 2
								// ("-nodev": the device part of the destination is omitted, which means the receiving device)
								for _, dest := range []string{"server", "client", "nofeature", "noentity", "server-nodev", "nofeature-nodev"} {
									cs := c01Case{class: class, ack: ack, ackFalse: ackFalse, dest: dest, fn: fn, peer: peer}
									// source: requests come from the peer's client feature, data from its server feature
									srcNum := uint(2*ti + 1)
									if class == model.CmdClassifierTypeReply || class == model.CmdClassifierTypeNotify || class == model.CmdClassifierTypeResult {
										srcNum = uint(2*ti + 2)
									}
									src := world.FAddr("d"+peer, []uint{1}, srcNum)
									var dst *model.FeatureAddressType
									switch dest {
									case "server":
										dst = c.srv[t.ft].Address()
									case "client":
										dst = c.cli[t.ft].Address()
									case "nofeature":
										dst = world.FAddr(world.LocalAddr, []uint{1}, 250)
									case "noentity":
										dst = world.FAddr(world.LocalAddr, []uint{9}, 1)
									case "server-nodev":
										dst = world.FAddr("", entOf(c.srv[t.ft].Address()), uint(*c.srv[t.ft].Address().Feature))
									case "nofeature-nodev":
										dst = world.FAddr("", []uint{1}, 250)
									}
									dest = strings.TrimSuffix(dest, "-nodev")
									cs.dest = dest
									cmd := model.CmdType{}
									var ref *model.MsgCounterType
									switch class {
									case model.CmdClassifierTypeResult:
										cmd.ResultData = &model.ResultDataType{ErrorNumber: util.Ptr(model.ErrorNumberType(0))}
										ref = ptrCtr(1)
									case model.CmdClassifierTypeRead:
										cmd.SetDataForFunction(fn, reflect.New(pt).Interface())
									default:
										v := reflect.New(pt)
										v.Elem().Set(refl.Fill(pt, 2, 2))
										cmd.SetDataForFunction(fn, v.Interface())
										if class == model.CmdClassifierTypeReply {
											ref = ptrCtr(1)
										}
									}
									known := dest == "server" || dest == "client"
									switch {
									case class == model.CmdClassifierTypeResult:
										cs.expect = "none"
									case !known:
										cs.expect = "err"
									case class == model.CmdClassifierTypeRead && dest == "server":
										cs.expect = "reply"
										cs.payload = world.JSON(c.srv[t.ft].DataCopy(fn))
									case class == model.CmdClassifierTypeRead:
										cs.expect = "err"
									case class == model.CmdClassifierTypeCall:
										cs.expect = "err" // no call is defined for these features: rejected
									case class == model.CmdClassifierTypeWrite:
										accept := dest == "server" && c.writab[fn] && bound && peer == "A"
										switch {
										case accept && ack:
											cs.expect = "ok"
										case accept:
											cs.expect = "none"
										default:
											cs.expect = "err"
										}
									case dest == "client": // reply / notify of a function of the source feature's type to a client of that type: accepted
										if ack {
											cs.expect = "ok"
										} else {
											cs.expect = "none"
										}
									default: // reply / notify addressed to a server feature: acceptance is left open
										cs.expect = "atmostone"
									}
									r.Evals++
									if cs.expect != "none" && cs.expect != "atmostone" {
										r.Nontrivial++
									}
									for _, v := range c.deliver(cs, src, dst, cmd, ref) {
										fail(cs, v)
									}
									if len(r.Samples) < 1 && cs.expect == "reply" {
										r.Samples = append(r.Samples, fmt.Sprintf("%s %s ack=%v -> %s %s: expect %s", class, fn, ack, dest, t.ft, cs.expect))
									}
								}
							}
						}
					}
				}
			})
			for _, p := range res.Panics {
				r.NFails++
				r.Fails = append(r.Fails, engine.IFail{Key: "panic in " + p.Frame + " | type=" + string(t.ft), Msg: p.Value})
			}
			return r
		}}
	nm := &engine.IFamily{Name: "node-management", Chunks: 2,
		Rule: "messages addressed to the NodeManagement feature from each peer's NodeManagement: read of every announced readable function (detailed discovery, use case, subscription, binding, destination list data), call of subscription/binding data, valid and invalid subscription/binding request and delete calls, use-case reply/notify, results with and without reference, each with ackRequest absent/true/false; non-trivial: a response is expected",
		Run: func(chunk int) engine.IResult {
			var r engine.IResult
			bound := chunk == 1
			fail := func(cs c01Case, name, v string) {
				r.NFails++
				key := fmt.Sprintf("%s | message=%s", strings.SplitN(v, " | ", 2)[0], name)
				for _, f := range r.Fails {
					if f.Key == key {
						return
					}
				}
				r.Fails = append(r.Fails, engine.IFail{Key: key, Msg: fmt.Sprintf("%s\nack=%v peer=%s bound=%v", v, cs.ack, cs.peer, bound), Input: name})
			}
			rt.Execute(rt.Config{Horizon: 2000000}, func() {
				types := c01Types()[:2]
				for _, peer := range []string{"A", "B"} {
					for _, av := range []int{0, 1, 2} { // ackRequest absent, true, explicitly false
						ack, ackFalse := av == 1, av == 2
						c := newC01World(types, bound)
						pe := c.w.Peers[peer]
						nmL := c.w.L.NodeManagement()
						lc := types[0].ft
						type msg struct {
							name   string
							class  model.CmdClassifierType
							cmd    model.CmdType
							ref    *model.MsgCounterType
							expect string
							fn     model.FunctionType
							pay    string
						}
						ackd := func(accepted bool) string {
							switch {
							case !accepted:
								return "err"
							case ack:
								return "ok"
							}
							return "none"
						}
						cliA := world.FAddr("d"+peer, []uint{1}, 3) // client feature of the second type (never bound by the set-up of the first)
						srvL := c.srv[types[1].ft].Address()
						already := bound // the set-up binds and subscribes every type for A, subscribes for B
						msgs := []msg{
							{"read detailed discovery", model.CmdClassifierTypeRead, model.CmdType{NodeManagementDetailedDiscoveryData: &model.NodeManagementDetailedDiscoveryDataType{}}, nil, "reply", model.FunctionTypeNodeManagementDetailedDiscoveryData, ""},
							{"read use case data", model.CmdClassifierTypeRead, model.CmdType{NodeManagementUseCaseData: &model.NodeManagementUseCaseDataType{}}, nil, "reply", model.FunctionTypeNodeManagementUseCaseData, world.JSON(nmL.DataCopy(model.FunctionTypeNodeManagementUseCaseData))},
							{"read subscription data", model.CmdClassifierTypeRead, model.CmdType{NodeManagementSubscriptionData: &model.NodeManagementSubscriptionDataType{}}, nil, "reply", model.FunctionTypeNodeManagementSubscriptionData, ""},
							{"read binding data", model.CmdClassifierTypeRead, model.CmdType{NodeManagementBindingData: &model.NodeManagementBindingDataType{}}, nil, "reply", model.FunctionTypeNodeManagementBindingData, ""},
							{"read destination list data", model.CmdClassifierTypeRead, model.CmdType{NodeManagementDestinationListData: &model.NodeManagementDestinationListDataType{}}, nil, "reply", model.FunctionTypeNodeManagementDestinationListData, ""},
							{"subscription request of an unknown client", model.CmdClassifierTypeCall, pe.SubscribeCall(world.FAddr("d"+peer, []uint{1}, 251), srvL, types[1].ft).Payload.Cmd[0], nil, ackd(false), "", ""},
							{"subscription request", model.CmdClassifierTypeCall, pe.SubscribeCall(cliA, srvL, types[1].ft).Payload.Cmd[0], nil, ackd(!already), "", ""},
							{"subscription request repeated", model.CmdClassifierTypeCall, pe.SubscribeCall(cliA, srvL, types[1].ft).Payload.Cmd[0], nil, ackd(false), "", ""},
							{"subscription delete", model.CmdClassifierTypeCall, pe.UnsubscribeCall(cliA, srvL).Payload.Cmd[0], nil, ackd(true), "", ""},
							{"subscription delete repeated", model.CmdClassifierTypeCall, pe.UnsubscribeCall(cliA, srvL).Payload.Cmd[0], nil, ackd(false), "", ""},
							{"binding request with the wrong type", model.CmdClassifierTypeCall, pe.BindCall(cliA, srvL, lc).Payload.Cmd[0], nil, ackd(false), "", ""},
							{"binding delete of an unknown binding", model.CmdClassifierTypeCall, pe.UnbindCall(world.FAddr("d"+peer, []uint{1}, 251), srvL).Payload.Cmd[0], nil, ackd(false), "", ""},
							{"use case reply", model.CmdClassifierTypeReply, model.CmdType{NodeManagementUseCaseData: &model.NodeManagementUseCaseDataType{}}, ptrCtr(3), ackd(true), "", ""},
							{"use case notify", model.CmdClassifierTypeNotify, model.CmdType{NodeManagementUseCaseData: &model.NodeManagementUseCaseDataType{}}, nil, ackd(true), "", ""},
							{"read of a function node management does not have", model.CmdClassifierTypeRead, model.CmdType{MeasurementListData: &model.MeasurementListDataType{}}, nil, "err", "", ""},
							{"result with reference", model.CmdClassifierTypeResult, model.CmdType{ResultData: &model.ResultDataType{ErrorNumber: util.Ptr(model.ErrorNumberType(7))}}, ptrCtr(2), "none", "", ""},
							{"result without error number", model.CmdClassifierTypeResult, model.CmdType{ResultData: &model.ResultDataType{}}, ptrCtr(2), "none", "", ""},
						}
						for _, mg := range msgs {
							cs := c01Case{class: mg.class, ack: ack, ackFalse: ackFalse, dest: "nm", fn: mg.fn, peer: peer, expect: mg.expect, payload: mg.pay}
							r.Evals++
							if mg.expect != "none" && mg.expect != "atmostone" {
								r.Nontrivial++
							}
							for _, v := range c.deliver(cs, pe.NM(), world.LocalNM(), mg.cmd, mg.ref) {
								fail(cs, mg.name, v)
							}
						}
					}
				}
			})
			sort.Slice(r.Fails, func(i, j int) bool { return r.Fails[i].Key < r.Fails[j].Key })
			if len(r.Samples) == 0 {
				r.Samples = []string{"read subscription data from A's NodeManagement -> expect one reply"}
			}
			return r
		}}
	rejected := &engine.IFamily{Name: "writes-rejected-by-the-data-layer", Chunks: 1,
		Rule: "authorised writes (binding present, function writable) that the update engine accepts or rejects: partial, selector and delete writes addressing a changeable or a write-protected element of each list type with a writecheck field, ackRequest absent/true/false; non-trivial: all",
		Run: func(chunk int) engine.IResult {
			var r engine.IResult
			specs := wcheckSpecs()
			rt.Execute(rt.Config{Horizon: 2000000}, func() {
				c := newC04World(specs)
				rt.WaitIdle()
				for _, sp := range specs {
					f := c.local[sp.name]
					for _, av := range []int{0, 1, 2} { // ackRequest absent, true, explicitly false
						ack, ackFalse := av == 1, av == 2
						for _, target := range []int{1, 2} { // element 1 is changeable, element 2 is not
							for _, fs := range []filterSpec{{partial: true}, {partial: true, partialSel: target}, {del: true, delSel: target}, {del: true, delSel: target, delElements: true}} {
								fp, fd, ok := sp.filters(fs)
								if !ok {
									continue
								}
								f.SetData(sp.fn, sp.list([]itemSpec{{id: 1, pay: "1-", flag: 't'}, {id: 2, pay: "1-", flag: 'f'}}))
								items := []itemSpec{{id: target, pay: "2-"}}
								if fs.partialSel > 0 {
									items = []itemSpec{{pay: "2-"}}
								}
								if fs.del {
									items = nil
								}
								cmd := model.CmdType{}
								cmd.SetDataForFunction(sp.fn, sp.list(items))
								fn := sp.fn
								cmd.Function = &fn
								if fd != nil {
									cmd.Filter = append(cmd.Filter, *fd)
								}
								if fp != nil {
									cmd.Filter = append(cmd.Filter, *fp)
								}
								cs := c01Case{class: model.CmdClassifierTypeWrite, ack: ack, ackFalse: ackFalse, dest: "server", fn: sp.fn, peer: "A"}
								switch {
								case target == 2:
									cs.expect = "err"
								case ack:
									cs.expect = "ok"
								default:
									cs.expect = "none"
								}
								r.Evals++
								r.Nontrivial++
								cw := &c01World{w: c.w}
								for _, v := range cw.deliver(cs, c.cli[sp.name], f.Address(), cmd, nil) {
									r.NFails++
									key := fmt.Sprintf("%s | write=%s target=%s type=%s", strings.SplitN(v, " | ", 2)[0], fs.String(), map[int]string{1: "changeable", 2: "protected"}[target], sp.name)
									dup := false
									for _, x := range r.Fails {
										dup = dup || x.Key == key
									}
									if !dup {
										r.Fails = append(r.Fails, engine.IFail{Key: key, Msg: fmt.Sprintf("%s\nack=%v", v, ack), Input: sp.name + " " + fs.String()})
									}
								}
							}
						}
					}
				}
			})
			if len(r.Samples) == 0 {
				r.Samples = []string{"partial write of a protected limit with ackRequest -> expect exactly one error result"}
			}
			return r
		}}
	apiBuilt := &engine.IFamily{Name: "commands-built-by-the-api", Chunks: len(types),
		Rule: "the datagrams another spine-go device sends: for every function of every feature type, the commands FunctionDataCmd builds — read, read+selector, read+elements (to the local server feature: exactly one reply), reply and notify/write in the shapes full, partial, partial+selector, delete+selector, delete+elements (notify to the local client feature, write from the bound peer to the local server feature: exactly one result when an acknowledgement is requested, at most an error result otherwise); selectors and elements generated reflectively; non-trivial: a response is expected",
		Run: func(chunk int) engine.IResult {
			var r engine.IResult
			now := staticNow
			vtime.StaticNow = &now
			defer func() { vtime.StaticNow = nil }()
			t := types[chunk]
			fail := func(cs c01Case, shape, v string) {
				r.NFails++
				key := fmt.Sprintf("%s | classifier=%s shape=%s type=%s", strings.SplitN(v, " | ", 2)[0], cs.class, shape, t.ft)
				for _, f := range r.Fails {
					if f.Key == key {
						return
					}
				}
				r.Fails = append(r.Fails, engine.IFail{Key: key, Msg: fmt.Sprintf("%s\nfunction=%s ack=%v", v, cs.fn, cs.ack), Input: fmt.Sprintf("%s/%s/%s/%v", cs.class, cs.fn, shape, cs.ack)})
			}
			registered := map[model.FunctionType]bool{}
			for _, fd := range t.fns {
				registered[fd.FunctionType()] = true
			}
			res := rt.Execute(rt.Config{Horizon: 2000000}, func() {
				c := newC01World(types, true)
				// the peer's own function data objects (a second set from the factory), filled like a peer would
				peerFds := spine.CreateFunctionData[api.FunctionDataCmdInterface](t.ft)
				for _, fd := range peerFds {
					fn := fd.FunctionType()
					if _, ok := c.writab[fn]; !ok {
						continue
					}
					pt := reflect.TypeOf(fd.DataCopyAny()).Elem()
					data := reflect.New(pt)
					data.Elem().Set(refl.Fill(pt, 2, 2))
					if _, err := fd.UpdateDataAny(false, true, data.Interface(), nil, nil); err != nil {
						continue
					}
					selT, hasSel := selectorsType(fn)
					elT, hasEl := elementsType(fn)
					if !strings.HasSuffix(string(fn), "ListData") && registered[model.FunctionType(strings.TrimSuffix(string(fn), "Data")+"ListData")] {
						hasEl = false
					}
					var sel, el any
					if hasSel {
						v := reflect.New(selT)
						v.Elem().Set(refl.Fill(selT, 1, 1))
						sel = v.Interface()
					}
					if hasEl {
						v := reflect.New(elT)
						v.Elem().Set(refl.Fill(elT, 1, 1))
						el = v.Interface()
					}
					ti := chunk
					for _, sh := range cmdShapes {
						if (sh.needSel && !hasSel) || (sh.needEl && !hasEl) {
							continue
						}
						var cmd model.CmdType
						func() {
							defer func() {
								if recover() != nil {
									cmd = model.CmdType{}
								}
							}()
							cmd = sh.build(fd, sel, el)
						}()
						if _, err := cmd.Data(); err != nil {
							continue // the builder itself is C18's subject
						}
						for _, ack := range []bool{false, true} {
							isRead := strings.HasPrefix(sh.name, "read")
							cli, srv := world.FAddr("dA", []uint{1}, uint(2*ti+1)), world.FAddr("dA", []uint{1}, uint(2*ti+2))
							type cse = struct {
								class    model.CmdClassifierType
								src, dst *model.FeatureAddressType
								ref      *model.MsgCounterType
							}
							var cases []cse
							switch {
							case isRead:
								cases = append(cases, cse{model.CmdClassifierTypeRead, cli, c.srv[t.ft].Address(), nil})
							case sh.name == "reply":
								cases = append(cases, cse{model.CmdClassifierTypeReply, srv, c.cli[t.ft].Address(), ptrCtr(1)})
							default:
								cases = append(cases, cse{model.CmdClassifierTypeNotify, srv, c.cli[t.ft].Address(), nil})
								if c.writab[fn] {
									cases = append(cases, cse{model.CmdClassifierTypeWrite, cli, c.srv[t.ft].Address(), nil})
								}
							}
							for ki, k := range append(append([]cse{}, cases...), cases...) {
								c.twoCmds = ki >= len(cases)
								cs := c01Case{class: k.class, ack: ack, dest: "server", fn: fn, peer: "A"}
								switch {
								case isRead:
									cs.expect = "reply"
									if sh.name == "read" {
										cs.payload = world.JSON(c.srv[t.ft].DataCopy(fn))
									}
								case ack:
									cs.expect = "oneresult"
								default:
									cs.expect = "resultiferr"
								}
								r.Evals++
								if cs.expect != "resultiferr" {
									r.Nontrivial++
								}
								shape := sh.name
								if c.twoCmds {
									shape += " (cmd twice in one datagram)"
								}
								for _, v := range c.deliver(cs, k.src, k.dst, cmd, k.ref) {
									fail(cs, shape, v)
								}
								c.twoCmds = false
							}
						}
					}
				}
			})
			for _, p := range res.Panics {
				r.NFails++
				r.Fails = append(r.Fails, engine.IFail{Key: "panic in " + p.Frame + " | type=" + string(t.ft), Msg: p.Value})
			}
			if len(r.Samples) == 0 {
				r.Samples = []string{"read+selector built by FunctionDataCmd.ReadCmdType -> expect exactly one reply"}
			}
			return r
		}}
	// ---- a feature of role special that the application created itself (node management is not the only one the role
	// allows): reads and writes are answered like those of a server feature, also when the application tried to register a
	// write approval callback on it (whether the stack accepts that registration is its business; a write that was
	// handed to the callback and approved there is answered, one that needs no approval is answered at once)
	special := &engine.IFamily{Name: "application-defined-special-feature", Chunks: 1,
		Rule: "a local LoadControl feature of role special (readable and writable limit list) with and without an attempted write approval callback (which approves at once) x peer {bound, not bound} x {read, write} x ackRequest {true, absent}: exactly one reply for a read, exactly one result for a write with acknowledgement request (success iff bound), none without; non-trivial: all",
		Run: func(int) engine.IResult {
			var r engine.IResult
			fail := func(key, msg string) {
				r.NFails++
				for _, f := range r.Fails {
					if f.Key == key {
						return
					}
				}
				r.Fails = append(r.Fails, engine.IFail{Key: key, Msg: msg})
			}
			for _, withCb := range []bool{false, true} {
				for _, bound := range []bool{false, true} {
					for _, class := range []model.CmdClassifierType{model.CmdClassifierTypeRead, model.CmdClassifierTypeWrite} {
						for _, ack := range []bool{true, false} {
							r.Evals++
							r.Nontrivial++
							var n, okN, badN, replies int
							res := rt.Execute(rt.Config{}, func() {
								w := stdWorld(false, "A")
								a := w.Peers["A"]
								e := w.L.Entity(spine.NewAddressEntityType([]uint{1})).(*spine.EntityLocal)
								f := spine.NewFeatureLocal(e.NextFeatureId(), e, model.FeatureTypeTypeLoadControl, model.RoleTypeSpecial)
								f.AddFunctionType(fnLimit, true, true)
								e.AddFeature(f)
								f.SetData(fnLimit, limitList(1, 1, 2))
								if withCb {
									_ = f.AddWriteApprovalCallback(func(msg *api.Message) { f.ApproveOrDenyWrite(msg, model.ErrorType{ErrorNumber: 0}) })
								}
								if bound {
									a.Deliver(a.BindCall(cliAddr("A", "e1f1", true), f.Address(), model.FeatureTypeTypeLoadControl))
								}
								rt.WaitIdle()
								m := w.Mark()
								cmd := model.CmdType{LoadControlLimitListData: limitList(2, 1, 2)}
								if class == model.CmdClassifierTypeRead {
									cmd = model.CmdType{LoadControlLimitListData: &model.LoadControlLimitListDataType{}}
								}
								d := a.Datagram(cliAddr("A", "e1f1", true), f.Address(), class, ack, nil, cmd)
								a.Deliver(d)
								rt.WaitIdle()
								rt.Advance(time.Minute)
								rt.WaitIdle()
								for _, o := range w.Since(m) {
									if o.Ref != int64(*d.Header.MsgCounter) {
										continue
									}
									n++
									if o.Class == "reply" {
										replies++
									}
									if o.Class == "result" && o.Err == 0 {
										okN++
									}
									if o.Class == "result" && o.Err != 0 {
										badN++
									}
								}
							})
							key := fmt.Sprintf("%s ack=%v bound=%v approval callback attempted=%v", class, ack, bound, withCb)
							for _, p := range res.Panics {
								fail("panic | "+key, p.Value)
							}
							switch {
							case class == model.CmdClassifierTypeRead && (replies != 1 || n != 1):
								fail("a read of a special feature is not answered with exactly one reply | "+key, fmt.Sprintf("responses=%d replies=%d", n, replies))
							case class == model.CmdClassifierTypeWrite && ack && (n != 1 || (bound && okN != 1) || (!bound && badN != 1)):
								fail("a write to a special feature is not answered with exactly its one result | "+key, fmt.Sprintf("responses=%d success=%d error=%d", n, okN, badN))
							case class == model.CmdClassifierTypeWrite && !ack && bound && n != 0:
								fail("an accepted write without acknowledgement request is answered | "+key, fmt.Sprintf("responses=%d", n))
							}
						}
					}
				}
			}
			return r
		}}
	return []*engine.IFamily{matrix, nm, rejected, apiBuilt, special}
}

// c01Scenarios: messages of two connections processed at the same time are answered as if processed one
// after the other: each request gets exactly its response, on its own connection, referencing its counter.
func c01Scenarios(thorough bool) []*engine.SScenario {
	pre := []string{"bind:A:e1f1:L1lc:lc:d", "sub:A:e1f1:L1lc:lc:d"}
	scs := []*engine.SScenario{
		linScenario(pre, [][]string{{"read:A:e1f1:L1lc"}, {"read:B:e1f1:L1lc"}}, nil),
		linScenario(pre, [][]string{{"write:A:e1f1:L1lc:limit:ack:2"}, {"read:B:e1f1:L1lc", "write:B:e1f1:L1lc:limit:ack:1"}}, nil),
		linScenario(pre, [][]string{{"sub:A:e2f1:L2lc:lc:d", "read:A:e1f1:L2lc"}, {"bind:B:e1f1:L2lc:lc:d", "write:B:e1f1:L2lc:limit:ack:2"}}, nil),
	}
	// the reply to a read carries the function's current data also while the application changes it: a read of the
	// detailed discovery data that overlaps the removal or addition of a local entity is answered with the data before
	// or after the change (scenarios shared with C07)
	for _, sc := range c07Scenarios() {
		if strings.HasPrefix(sc.Name, "discovery read | ") {
			scs = append(scs, sc)
		}
	}
	if thorough {
		scs = append(scs,
			linScenario(pre, [][]string{{"read:A:e1f1:L1lc", "unbind:A:e1f1:L1lc:d"}, {"read:B:e1f1:L1lc"}, {"set:L1lc:2"}}, nil),
			linScenario(pre, [][]string{{"write:A:e1f1:L1lc:limit:ack:2", "write:A:e1f1:L1lc:limit:noack:1"}, {"unsub:B:e1f1:L1lc:d", "sub:B:e1f1:L1lc:lc:d"}}, nil))
	}
	return scs
}

// c01Drivers: a write that waits for approval is answered exactly once as well — with the outcome of the verdicts
// it collected, at the timeout, or not at all when its connection goes — over whole histories of writes, verdicts,
// timeouts, disconnects and reconnects (after which the peer's message counters start again).
func c01Drivers(thorough bool) []*engine.HDriver {
	d := apDriver(2, 1, false, false)
	d.Name = "results of writes pending approval: " + d.Name
	if thorough {
		d2 := apDriver(2, 2, false, false)
		d2.Name = "results of writes pending approval: " + d2.Name
		return []*engine.HDriver{d, d2}
	}
	return []*engine.HDriver{d}
}

func init() {
	engine.Register(&engine.Check{
		ID:        "C01",
		NeedsRace: true,
		Scenarios: func(c *engine.Ctx) []*engine.SScenario { return c01Scenarios(c.Thorough) },
		Families:  func(c *engine.Ctx) []*engine.IFamily { return c01Families(c.Thorough) },
		Drivers:   func(c *engine.Ctx) []*engine.HDriver { return c01Drivers(c.Thorough) },
		Run: func(c *engine.Ctx) *engine.Report {
			rep := &engine.Report{Level: "model_checking", Coverage: map[string]any{}}
			engine.RunFamilies(c, c01Families(c.Thorough), rep)
			ev, _ := rep.Coverage["evaluations"].(int64)
			rep.Coverage["states"] = 2
			rep.Coverage["transitions"] = int(ev)
			rep.Coverage["traces_validated_against_impl"] = int(ev)
			for _, d := range c01Drivers(c.Thorough) {
				st := engine.RunHistories(c, d, 64, rep)
				engine.AddHCoverage(rep, d.Name, st, len(d.Alphabet))
			}
			mergeS(c, rep, c01Scenarios(c.Thorough), engine.SPlan{Bounds: boundsFor(c, []int{0, 1, 2}, []int{0, 1, 2, 3}), Race: true, RaceMaxBound: 1, RaceFuncs: []string{"Sender", "ProcessCmd", "HandleMessage", "processRead", "processWrite"}})
			rep.Assumptions = []string{"don't-care zones: acceptance of reply/notify addressed to server features (structural rules only), the response to a call of subscription/binding data, Generic features; only datagrams with classifier reply/result are responses (requests and notifications the stack sends on its own are judged by C03/C08)"}
			return rep
		},
	})
}
