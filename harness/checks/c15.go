package checks

import (
	"fmt"
	"sort"
	"strings"

	rt "github.com/enbility/spine-go/internal/verifrt"
	"github.com/enbility/spine-go/internal/verifrt/vsync"

	"github.com/enbility/spine-go/api"
	"github.com/enbility/spine-go/internal/verifh/engine"
	"github.com/enbility/spine-go/internal/verifh/world"
	"github.com/enbility/spine-go/model"
	"github.com/enbility/spine-go/spine"
)

// C15 — the event bus delivers every state change once, core first, without deadlock.

type evH struct {
	name string
	core bool
	act  func(ev string)
}

func (h *evH) HandleEvent(p api.EventPayload) {
	rt.Mark("hb " + h.name + " " + p.Ski)
	if h.act != nil {
		h.act(p.Ski)
	}
	rt.Mark("he " + h.name + " " + p.Ski)
}

type evBus struct{ hs map[string]*evH }

func (b *evBus) sub(n string) {
	h := b.hs[n]
	rt.Mark("sc " + n)
	if h.core {
		spine.VerifSubscribeCore(h)
	} else {
		_ = spine.Events.Subscribe(h)
	}
	rt.Mark("sr " + n)
}

func (b *evBus) unsub(n string) {
	h := b.hs[n]
	rt.Mark("uc " + n)
	if h.core {
		spine.VerifUnsubscribeCore(h)
	} else {
		_ = spine.Events.Unsubscribe(h)
	}
	rt.Mark("ur " + n)
}

func (b *evBus) pub(e string) {
	rt.Mark("pc " + e)
	spine.Events.Publish(api.EventPayload{Ski: e, EventType: api.EventTypeDataChange})
	rt.Mark("pr " + e)
}

func newBus() *evBus {
	spine.VerifResetGlobals()
	b := &evBus{hs: map[string]*evH{}}
	for _, n := range []string{"C1", "C2", "P1", "P2"} {
		b.hs[n] = &evH{name: n, core: n[0] == 'C'}
	}
	return b
}

// judgeBus applies the oracle of DESIGN.md C15 to the call/return log.
func judgeBus(log []string, b *evBus, initial []string) ([]string, string) {
	type op struct {
		kind string // s or u
		call int
		ret  int
	}
	hops := map[string][]*op{}
	for _, n := range initial {
		hops[n] = append(hops[n], &op{kind: "s", call: -2, ret: -1})
	}
	pc, pr := map[string]int{}, map[string]int{}
	hb := map[string][]int{} // "H e" -> positions
	he := map[string][]int{}
	for i, l := range log {
		f := strings.Fields(l)
		switch f[0] {
		case "sc", "uc":
			hops[f[1]] = append(hops[f[1]], &op{kind: f[0][:1], call: i, ret: 1 << 30})
		case "sr", "ur":
			l := hops[f[1]]
			for j := len(l) - 1; j >= 0; j-- {
				if l[j].kind == f[0][:1] && l[j].ret == 1<<30 {
					l[j].ret = i
					break
				}
			}
		case "pc":
			pc[f[1]] = i
			pr[f[1]] = 1 << 30
		case "pr":
			pr[f[1]] = i
		case "hb":
			hb[f[1]+" "+f[2]] = append(hb[f[1]+" "+f[2]], i)
		case "he":
			he[f[1]+" "+f[2]] = append(he[f[1]+" "+f[2]], i)
		}
	}
	var v []string
	var dig []string
	var events []string
	for e := range pc {
		events = append(events, e)
	}
	sort.Strings(events)
	var names []string
	for n := range b.hs {
		names = append(names, n)
	}
	sort.Strings(names)
	for _, e := range events {
		for _, n := range names {
			got := len(hb[n+" "+e])
			dig = append(dig, fmt.Sprintf("%s/%s=%d", n, e, got))
			// classify
			must, mustNot := false, true
			ops := hops[n]
			// must: a subscribe returned before pc(e) and no unsubscribe was called between that return and pr(e)
			for _, s := range ops {
				if s.kind != "s" || s.ret >= pc[e] {
					continue
				}
				ok := true
				for _, u := range ops {
					if u.kind == "u" && u.call > s.ret && u.call < pr[e] {
						ok = false
					}
					// an unsubscribe still in flight when the subscribe returned also makes it uncertain
					if u.kind == "u" && u.call < s.ret && u.ret > s.call {
						ok = false
					}
				}
				if ok {
					must = true
				}
			}
			// mustNot: no subscribe overlaps or precedes Publish(e) without a completed unsubscribe after it
			for _, s := range ops {
				if s.kind != "s" || s.call > pr[e] {
					continue
				}
				undone := false
				for _, u := range ops {
					if u.kind == "u" && u.call > s.ret && u.ret < pc[e] {
						undone = true
					}
				}
				if !undone {
					mustNot = false
				}
			}
			if got > 1 {
				v = append(v, fmt.Sprintf("an event was delivered to one handler more than once | handler=%s event=%s n=%d", n, e, got))
			}
			if must && got != 1 {
				v = append(v, fmt.Sprintf("a handler subscribed throughout the publication did not receive the event exactly once | handler=%s event=%s n=%d", n, e, got))
			}
			if mustNot && got != 0 {
				v = append(v, fmt.Sprintf("a handler received an event published after its unsubscription returned (or without being subscribed) | handler=%s event=%s", n, e))
			}
			// core first
			if b.hs[n].core {
				for _, end := range he[n+" "+e] {
					if end > pr[e] {
						v = append(v, fmt.Sprintf("a core handler was still running when Publish returned | handler=%s event=%s", n, e))
					}
					for _, p := range names {
						if b.hs[p].core {
							continue
						}
						for _, begin := range hb[p+" "+e] {
							if begin < end {
								v = append(v, fmt.Sprintf("an application handler ran before a core handler had finished | core=%s app=%s event=%s", n, p, e))
							}
						}
					}
				}
				if len(hb[n+" "+e]) != len(he[n+" "+e]) {
					v = append(v, fmt.Sprintf("a core handler did not finish | handler=%s event=%s", n, e))
				}
			}
		}
		if pr[e] == 1<<30 {
			v = append(v, "Publish did not return | event="+e)
		}
	}
	return v, strings.Join(dig, " ")
}

func c15Scenarios() []*engine.SScenario {
	mk := func(name string, initial []string, setup func(b *evBus), threads func(b *evBus) []func()) *engine.SScenario {
		return &engine.SScenario{Name: name, Run: func(cfg rt.Config) rt.Outcome {
			var b *evBus
			res := rt.Execute(cfg, func() {
				b = newBus()
				for _, n := range initial {
					if b.hs[n].core {
						spine.VerifSubscribeCore(b.hs[n])
					} else {
						_ = spine.Events.Subscribe(b.hs[n])
					}
				}
				if setup != nil {
					setup(b)
				}
				ths := threads(b)
				rt.BeginExplore()
				for _, t := range ths {
					rt.Go(t)
				}
				rt.WaitIdle()
				rt.JoinFinished()
			})
			viol, dig := judgeBus(res.Log, b, initial)
			return rt.Outcome{Res: res, Violations: append(viol, panicsAndDeadlocks(res)...), Digest: dig}
		}}
	}
	return []*engine.SScenario{
		c15CoreLifetime(),
		c15CoreLifetimeConcurrent(), c15CoreHandlerAgainstTheStack(),
		mk("publish | subscribe+unsubscribe", []string{"C1", "P1"}, nil, func(b *evBus) []func() {
			return []func(){func() { b.pub("e1") }, func() { b.sub("P2"); b.unsub("P1") }}
		}),
		mk("two publishers | core unsubscribe", []string{"C1", "C2", "P1"}, nil, func(b *evBus) []func() {
			return []func(){func() { b.pub("e1") }, func() { b.pub("e2") }, func() { b.unsub("C2") }}
		}),
		mk("handlers (un)subscribe from inside", []string{"C1", "C2", "P1"}, func(b *evBus) {
			b.hs["P1"].act = func(e string) { b.unsub("P1"); b.sub("P2") }
			b.hs["C1"].act = func(e string) {
				if e == "e1" {
					b.unsub("C2")
				}
			}
		}, func(b *evBus) []func() {
			return []func(){func() { b.pub("e1"); b.pub("e2") }}
		}),
		mk("application handler blocks until Publish returned", []string{"C1", "P1"}, nil, func(b *evBus) []func() {
			var latch vsync.WaitGroup
			latch.Add(1)
			b.hs["P1"].act = func(e string) { latch.Wait() }
			return []func(){func() { b.pub("e1"); latch.Done() }}
		}),
		mk("application handler publishes", []string{"C1", "P1", "P2"}, func(b *evBus) {
			b.hs["P1"].act = func(e string) {
				if e == "e1" {
					b.pub("e2")
				}
			}
		}, func(b *evBus) []func() {
			return []func(){func() { b.pub("e1") }, func() { b.unsub("P2") }}
		}),
		mk("double subscription | publish", []string{"P1"}, nil, func(b *evBus) []func() {
			return []func(){func() { b.sub("P1"); b.sub("C1"); b.sub("C1") }, func() { b.pub("e1") }}
		}),
		// "subscribing twice has no additional effect" also when the two subscriptions of one handler overlap
		mk("the same application handler subscribed from two goroutines | publish", nil, nil, func(b *evBus) []func() {
			return []func(){func() { b.sub("P1"); b.pub("e1") }, func() { b.sub("P1") }}
		}),
		mk("the same core handler subscribed from two goroutines | publish", []string{"P1"}, nil, func(b *evBus) []func() {
			return []func(){func() { b.sub("C1"); b.pub("e1") }, func() { b.sub("C1") }}
		}),
		mk("subscribe and unsubscribe of one handler from two goroutines | publish", []string{"P1", "P2"}, nil, func(b *evBus) []func() {
			return []func(){func() { b.sub("P1"); b.pub("e1") }, func() { b.unsub("P1"); b.unsub("P2"); b.pub("e2") }}
		}),
	}
}

// c15CoreLifetime: the stack's own internal handler (the local device, registered at core level when a
// connection is set up) must receive the events published while any peer is connected. Observed by
// behaviour only: a peer that announces itself is answered with the node-management subscription request
// and the use-case read that this handler issues, and an application handler sees the device event once.
// One execution enumerates every connect/disconnect history of two peers up to length 4.
func c15CoreLifetime() *engine.SScenario {
	return &engine.SScenario{Name: "the stack's core handler over all connect/disconnect histories of two peers (length <= 4)", Run: func(cfg rt.Config) rt.Outcome {
		var viol []string
		n := 0
		res := rt.Execute(cfg, func() {
			ents := []world.EntSpec{clientEntity([]uint{1})}
			var rec func(hist []string, conn map[string]bool)
			check := func(hist []string, conn map[string]bool) {
				n++
				w := world.New(true)
				stdLocal(w)
				for _, op := range hist {
					if op[0] == '+' {
						w.Connect(op[1:], "d"+op[1:]).Ents = ents
					} else {
						w.L.RemoveRemoteDeviceConnection(op[1:])
					}
					rt.WaitIdle()
				}
				for _, p := range []string{"A", "B"} {
					if !conn[p] {
						continue
					}
					pe := w.Peers[p]
					m := w.Mark()
					pe.Deliver(pe.DiscoveryReply(ents))
					rt.WaitIdle()
					nsub, nuc := 0, 0
					for _, o := range w.Since(m) {
						if o.Conn == pe.W.Name && o.Class == "call" && o.Fn == "NodeManagementSubscriptionRequestCall" {
							nsub++
						}
						if o.Conn == pe.W.Name && o.Class == "read" && o.Fn == "NodeManagementUseCaseData" {
							nuc++
						}
					}
					nev := evCount(w.EventsSince(m), api.EventTypeDeviceChange, api.ElementChangeAdd)
					if nsub != 1 || nuc != 1 || nev != 1 {
						viol = append(viol, fmt.Sprintf("a device event did not reach the stack's internal handler and the application exactly once | history=%s peer=%s subscription requests=%d use-case reads=%d application events=%d", strings.Join(hist, ","), p, nsub, nuc, nev))
					}
				}
			}
			rec = func(hist []string, conn map[string]bool) {
				if len(hist) > 0 {
					check(hist, conn)
				}
				if len(hist) == 4 {
					return
				}
				for _, p := range []string{"A", "B"} {
					op := "+" + p
					if conn[p] {
						op = "-" + p
					}
					conn[p] = !conn[p]
					rec(append(append([]string{}, hist...), op), conn)
					conn[p] = !conn[p]
				}
			}
			rec(nil, map[string]bool{})
			rt.BeginExplore()
			rt.WaitIdle()
			rt.JoinFinished()
		})
		return rt.Outcome{Res: res, Violations: append(viol, panicsAndDeadlocks(res)...), Digest: fmt.Sprintf("histories=%d", n)}
	}}
}

// c15CoreLifetimeConcurrent: the last connected peer is removed while another peer connects (two connection
// goroutines of the SHIP layer). Afterwards one peer is connected, so the stack's internal handler must be on
// the bus: the new peer's announcement is answered with the node-management subscription request and the
// use-case read, and the application sees the device event once.
func c15CoreLifetimeConcurrent() *engine.SScenario {
	return &engine.SScenario{Name: "the last peer is removed while another peer connects: the stack's core handler stays subscribed", Run: func(cfg rt.Config) rt.Outcome {
		var viol []string
		dig := ""
		res := rt.Execute(cfg, func() {
			ents := []world.EntSpec{clientEntity([]uint{1})}
			w := world.New(true)
			stdLocal(w)
			w.ConnectAndAnnounce("A", "dA", ents)
			rt.WaitIdle()
			rt.BeginExplore()
			rt.Go(func() { w.L.RemoveRemoteDeviceConnection("A") })
			rt.Go(func() { w.Connect("B", "dB").Ents = ents })
			rt.WaitIdle()
			rt.JoinFinished()
			pe := w.Peers["B"]
			m := w.Mark()
			pe.Deliver(pe.DiscoveryReply(ents))
			rt.WaitIdle()
			nsub, nuc := 0, 0
			for _, o := range w.Since(m) {
				if o.Conn == pe.W.Name && o.Class == "call" && o.Fn == "NodeManagementSubscriptionRequestCall" {
					nsub++
				}
				if o.Conn == pe.W.Name && o.Class == "read" && o.Fn == "NodeManagementUseCaseData" {
					nuc++
				}
			}
			nev := evCount(w.EventsSince(m), api.EventTypeDeviceChange, api.ElementChangeAdd)
			dig = fmt.Sprintf("sub=%d uc=%d ev=%d", nsub, nuc, nev)
			if nsub != 1 || nuc != 1 || nev != 1 {
				viol = append(viol, fmt.Sprintf("a device event did not reach the stack's internal handler and the application exactly once | subscription requests=%d use-case reads=%d application events=%d", nsub, nuc, nev))
			}
		})
		return rt.Outcome{Res: res, Violations: append(viol, panicsAndDeadlocks(res)...), Digest: dig}
	}}
}


// c15CoreHandlerAgainstTheStack: the stack's own core handler works while the bus lock is held (it sends the
// node-management subscription request of a newly discovered peer, which takes the node-management feature), the
// managers publish while they hold their own lock, and the application changes node-management data (use cases)
// whose subscribers are looked up in the subscription manager. The three meet when a peer's discovery reply, another
// peer's subscription request and a use-case change are processed at the same time: none may wait for the others in
// a circle, every call returns.
func c15CoreHandlerAgainstTheStack() *engine.SScenario {
	return &engine.SScenario{Name: "a discovery reply, a subscription request of another peer and a use-case change at the same time: every call returns", Heavy: true, Run: func(cfg rt.Config) rt.Outcome {
		var viol []string
		dig := ""
		res := rt.Execute(cfg, func() {
			ents := []world.EntSpec{clientEntity([]uint{1})}
			w := world.New(true)
			stdLocal(w)
			a := w.ConnectAndAnnounce("A", "dA", ents)
			a.Deliver(a.SubscribeCall(a.NM(), world.LocalNM(), model.FeatureTypeTypeNodeManagement))
			b := w.ConnectAndAnnounce("B", "dB", ents)
			rt.WaitIdle()
			// the event the stack publishes when the discovery reply of a peer has been processed, published once more
			// (what a repeated reply of B leads to; publishing it directly keeps the thread short enough for two deviations)
			announce := api.EventPayload{Ski: "B", EventType: api.EventTypeDeviceChange, ChangeType: api.ElementChangeAdd, Device: b.Dev,
				Feature: b.Dev.FeatureByAddress(b.NM()), Data: &model.NodeManagementDetailedDiscoveryDataType{}}
			sub := a.SubscribeCall(cliAddr("A", "e1f1", true), srvAddr("L1lc", true), model.FeatureTypeTypeLoadControl)
			e1 := w.L.Entity(spine.NewAddressEntityType([]uint{1}))
			rt.BeginExplore()
			rt.Go(func() { spine.Events.Publish(announce) })
			rt.Go(func() { a.Deliver(sub) })
			rt.Go(func() {
				e1.AddUseCaseSupport(model.UseCaseActorTypeCEM, ucNames["u1"], "1.0.0", "r", true, scenList("12"))
			})
			rt.WaitIdle()
			rt.JoinFinished()
			dig = fmt.Sprint(len(w.L.SubscriptionManager().Subscriptions(a.Dev)))
		})
		return rt.Outcome{Res: res, Violations: append(viol, panicsAndDeadlocks(res)...), Digest: dig}
	}}
}

func init() {
	engine.Register(&engine.Check{
		ID:        "C15",
		NeedsRace: true,
		Scenarios: func(c *engine.Ctx) []*engine.SScenario { return c15Scenarios() },
		Run: func(c *engine.Ctx) *engine.Report {
			rep := &engine.Report{Level: "model_checking", Coverage: map[string]any{}}
			engine.RunSchedules(c, c15Scenarios(), engine.SPlan{Bounds: boundsFor(c, []int{0, 1, 2}, []int{0, 1, 2, 3, -1}), Race: true, RaceFuncs: []string{"events"}}, rep)
			rep.Assumptions = []string{"call/return markers of the harness are scheduling points and part of the trace; handlers are harness objects registered at core level through the same internal entry point DeviceLocal uses"}
			return rep
		},
	})
}
