package checks

import (
	"fmt"
	"sort"
	"strings"
	"time"

	rt "github.com/enbility/spine-go/internal/verifrt"

	"github.com/enbility/spine-go/api"
	"github.com/enbility/spine-go/internal/verifh/engine"
	"github.com/enbility/spine-go/internal/verifh/world"
	"github.com/enbility/spine-go/internal/verifrt/vsync"
	"github.com/enbility/spine-go/model"
)

// C12 — write approval: unanimous, timely, and exactly one outcome per write.

const approvalTimeout = 10 * time.Second

// c12Scenario: n callbacks; vectors[w] is the verdict string of write w, one
// letter per callback: A approve, D deny, S silent (late approval after the timeout).
func c12Scenario(n int, vectors []string) *engine.SScenario {
	name := fmt.Sprintf("callbacks=%d writes=%s", n, strings.Join(vectors, "|"))
	return &engine.SScenario{Name: name, TimersFree: true, Heavy: len(vectors) > 1 || n > 2, Run: func(cfg rt.Config) rt.Outcome {
		var viol []string
		var dig string
		res := rt.Execute(cfg, func() {
			w := stdWorld(false, "A")
			a := w.Peers["A"]
			f := w.L.FeatureByAddress(srvAddr("L1lc", true))
			f.SetData(fnLimit, limitList(1, 1, 2))
			a.Deliver(a.BindCall(cliAddr("A", "e1f1", true), srvAddr("L1lc", true), model.FeatureTypeTypeLoadControl))
			type inv struct {
				cb  int
				ctr uint64
			}
			invs := map[inv]int{}
			var late []func()
			ctrOf := map[uint64]int{} // counter -> write index
			for i := 0; i < n; i++ {
				i := i
				_ = f.AddWriteApprovalCallback(func(msg *api.Message) {
					c := uint64(*msg.RequestHeader.MsgCounter)
					c12count(invs, inv{i, c})
					wi, ok := ctrOf[c]
					if !ok {
						return
					}
					switch vectors[wi][i] {
					case 'A':
						f.ApproveOrDenyWrite(msg, model.ErrorType{ErrorNumber: 0})
						rt.Mark(fmt.Sprintf("ar %d %d %d", wi, i, rt.NowD()/time.Millisecond))
					case 'D':
						f.ApproveOrDenyWrite(msg, model.ErrorType{ErrorNumber: 7, Description: nil})
						rt.Mark(fmt.Sprintf("dr %d %d %d", wi, i, rt.NowD()/time.Millisecond))
					case 'S':
						c12late(&late, func() { f.ApproveOrDenyWrite(msg, model.ErrorType{ErrorNumber: 0}) })
					}
				})
			}
			var ds []model.DatagramType
			for wi := range vectors {
				d := a.Datagram(cliAddr("A", "e1f1", true), srvAddr("L1lc", true), model.CmdClassifierTypeWrite, true, nil,
					model.CmdType{LoadControlLimitListData: limitList(2+wi, 1, 2)})
				ctrOf[uint64(*d.Header.MsgCounter)] = wi
				ds = append(ds, d)
			}
			m := w.Mark()
			rt.BeginExplore()
			rt.Go(func() {
				for _, d := range ds {
					a.Deliver(d)
				}
			})
			rt.WaitIdle()
			rt.Advance(time.Minute) // every timer that is still armed expires
			rt.JoinFinished()
			for _, l := range c12lates(&late) {
				l() // verdicts arriving after the timeout
			}
			rt.WaitIdle()
			rt.JoinFinished()
			outs := w.Since(m)
			applied := 0
			var marks []int
			var dg []string
			for wi, d := range ds {
				c := uint64(*d.Header.MsgCounter)
				ok, bad := countResults(outs, "A", c)
				dg = append(dg, fmt.Sprintf("w%d:%d/%d", wi, ok, bad))
				for i := 0; i < n; i++ {
					if invs[inv{i, c}] != 1 {
						viol = append(viol, fmt.Sprintf("a write was not presented exactly once to every callback | write=%d callback=%d times=%d", wi, i, invs[inv{i, c}]))
					}
				}
				if ok+bad != 1 {
					viol = append(viol, fmt.Sprintf("a write did not get exactly one outcome | vector=%s success=%d error=%d", vectors[wi], ok, bad))
				}
				if ok > 0 {
					applied++
					marks = append(marks, 2+wi)
				}
				if strings.ContainsAny(vectors[wi], "DS") && ok > 0 {
					viol = append(viol, fmt.Sprintf("a write was applied although a callback denied it or stayed silent | vector=%s", vectors[wi]))
				}
			}
			// all approve and every approval returned before the timeout could have started => applied
			lastRet := map[int]int64{}
			for _, l := range resLog() {
				var wi, i int
				var ms int64
				if k, _ := fmt.Sscanf(l, "ar %d %d %d", &wi, &i, &ms); k == 3 && ms > lastRet[wi] {
					lastRet[wi] = ms
				} else if k == 3 {
					if _, ok := lastRet[wi]; !ok {
						lastRet[wi] = ms
					}
				}
			}
			for wi, d := range ds {
				if strings.Trim(vectors[wi], "A") != "" {
					continue
				}
				ok, _ := countResults(outs, "A", uint64(*d.Header.MsgCounter))
				if lastRet[wi] < int64(approvalTimeout/time.Millisecond) && ok != 1 {
					viol = append(viol, fmt.Sprintf("a write approved by every callback before the timeout was not applied | vector=%s write=%d of %d", vectors[wi], wi, len(vectors)))
				}
			}
			// data: unchanged if nothing was applied, else the marker of an applied write
			got := world.JSON(f.DataCopy(fnLimit))
			okData := applied == 0 && got == world.JSON(limitList(1, 1, 2))
			for _, mk := range marks {
				okData = okData || got == world.JSON(limitList(mk, 1, 2))
			}
			if !okData {
				viol = append(viol, fmt.Sprintf("stored data does not correspond to the outcomes | applied=%v", marks))
			}
			if rt.PendingTimers() != 0 {
				viol = append(viol, "an approval timer is still armed after every write had its outcome")
			}
			sort.Strings(dg)
			dig = strings.Join(dg, " ")
		})
		return rt.Outcome{Res: res, Violations: append(viol, panicsAndDeadlocks(res)...), Digest: dig}
	}}
}


// c12ReconnectScenario: a write of peer A waits for approval (nobody answers); the connection of A is removed and
// established again, and the new connection's first write carries the message counter of the waiting one (a peer
// counts its messages from the start again). The timeout of the old write may fire at any point of this — before,
// while, and after the connection is removed: the new write still gets exactly one outcome (its own timeout, on the
// new connection).
func c12ReconnectScenario(n int) *engine.SScenario {
	return &engine.SScenario{Name: fmt.Sprintf("callbacks=%d a pending write, its connection removed and re-established, a write with the same counter", n), TimersFree: true, Heavy: false,
		Run: func(cfg rt.Config) rt.Outcome {
			var viol []string
			var dig string
			res := rt.Execute(cfg, func() {
				w := stdWorld(false, "A")
				a := w.Peers["A"]
				f := w.L.FeatureByAddress(srvAddr("L1lc", true))
				f.SetData(fnLimit, limitList(1, 1, 2))
				a.Deliver(a.BindCall(cliAddr("A", "e1f1", true), srvAddr("L1lc", true), model.FeatureTypeTypeLoadControl))
				for i := 0; i < n; i++ {
					_ = f.AddWriteApprovalCallback(func(msg *api.Message) {})
				}
				a.SetCounter(99)
				a.Deliver(a.Datagram(cliAddr("A", "e1f1", true), srvAddr("L1lc", true), model.CmdClassifierTypeWrite, true, nil, model.CmdType{LoadControlLimitListData: limitList(2, 1, 2)}))
				rt.WaitIdle()
				oldW := a.W
				oldAfter := -1
				var newConn string
				m := w.Mark()
				rt.BeginExplore()
				rt.Go(func() {
					w.L.RemoveRemoteDeviceConnection("A")
					c12setInt(&oldAfter, oldW.Len())
					a2 := w.ConnectAndAnnounce("A", "dA", peerEnts(false))
					c12setStr(&newConn, a2.W.Name)
					a2.Deliver(a2.BindCall(cliAddr("A", "e1f1", true), srvAddr("L1lc", true), model.FeatureTypeTypeLoadControl))
					a2.SetCounter(99)
					a2.Deliver(a2.Datagram(cliAddr("A", "e1f1", true), srvAddr("L1lc", true), model.CmdClassifierTypeWrite, true, nil, model.CmdType{LoadControlLimitListData: limitList(3, 1, 2)}))
				})
				rt.WaitIdle()
				rt.Advance(time.Minute)
				rt.WaitIdle()
				rt.JoinFinished()
				// (the timeout result of the OLD write may be in flight when the removal starts — its timer passed its
				// decision before — and then reaches the old connection's writer late: left open here, C10 owns that clause)
				ok, bad := countResults(w.Since(m), newConn, 100)
				if ok != 0 || bad != 1 {
					viol = append(viol, fmt.Sprintf("the write of the new connection did not get exactly its one outcome (the timeout error) | success=%d error=%d", ok, bad))
				}
				if got := world.JSON(f.DataCopy(fnLimit)); got != world.JSON(limitList(1, 1, 2)) {
					viol = append(viol, "stored data changed although no write was approved | "+got)
				}
				if rt.PendingTimers() != 0 {
					viol = append(viol, "an approval timer is still armed after every write had its outcome")
				}
				dig = fmt.Sprint(ok, bad, oldW.Len()-oldAfter)
			})
			return rt.Outcome{Res: res, Violations: append(viol, panicsAndDeadlocks(res)...), Digest: dig}
		}}
}


// c12BusyCallbackScenario: one of the applications is busy inside its callback (it returns only when the harness lets
// it, after everything else has come to rest) while another one gives its verdict at once. Every callback is
// presented the write although another callback has not returned yet, and a denial ends the write then and there:
// at rest — the busy callback still busy — the error result is written; unanimous approval needs the busy one too.
func c12BusyCallbackScenario(busy int, other byte) *engine.SScenario {
	return &engine.SScenario{Name: fmt.Sprintf("callbacks=2, callback %d stays busy inside its invocation, the other answers %c at once", busy, other), TimersFree: false,
		Run: func(cfg rt.Config) rt.Outcome {
			var viol []string
			var dig string
			res := rt.Execute(cfg, func() {
				w := stdWorld(false, "A")
				a := w.Peers["A"]
				f := w.L.FeatureByAddress(srvAddr("L1lc", true))
				f.SetData(fnLimit, limitList(1, 1, 2))
				a.Deliver(a.BindCall(cliAddr("A", "e1f1", true), srvAddr("L1lc", true), model.FeatureTypeTypeLoadControl))
				var latch vsync.WaitGroup
				latch.Add(1)
				shown := map[int]int{}
				for i := 0; i < 2; i++ {
					i := i
					_ = f.AddWriteApprovalCallback(func(msg *api.Message) {
						c12count(shown, i)
						if i == busy {
							latch.Wait() // busy: returns (approving) only when the harness opens the latch
							f.ApproveOrDenyWrite(msg, model.ErrorType{ErrorNumber: 0})
							return
						}
						if other == 'D' {
							f.ApproveOrDenyWrite(msg, model.ErrorType{ErrorNumber: 7})
						} else {
							f.ApproveOrDenyWrite(msg, model.ErrorType{ErrorNumber: 0})
						}
					})
				}
				d := a.Datagram(cliAddr("A", "e1f1", true), srvAddr("L1lc", true), model.CmdClassifierTypeWrite, true, nil, model.CmdType{LoadControlLimitListData: limitList(2, 1, 2)})
				m := w.Mark()
				rt.BeginExplore()
				rt.Go(func() { a.Deliver(d) })
				rt.WaitIdle() // everything that can run has run; the busy callback is still inside its invocation
				okN, badN := countResults(w.Since(m), "A", uint64(*d.Header.MsgCounter))
				for i := 0; i < 2; i++ {
					if c12get(shown, i) != 1 {
						viol = append(viol, fmt.Sprintf("a write was not presented to every callback while another callback was still busy | callback=%d times=%d", i, c12get(shown, i)))
					}
				}
				if other == 'D' && (okN != 0 || badN != 1) {
					viol = append(viol, fmt.Sprintf("a denial did not end the write while another callback was still busy | success=%d error=%d", okN, badN))
				}
				if other == 'A' && okN+badN != 0 {
					viol = append(viol, fmt.Sprintf("a write got its outcome before every callback had answered | success=%d error=%d", okN, badN))
				}
				latch.Done()
				rt.WaitIdle()
				rt.Advance(time.Minute)
				rt.WaitIdle()
				rt.JoinFinished()
				okN, badN = countResults(w.Since(m), "A", uint64(*d.Header.MsgCounter))
				if okN+badN != 1 || (other == 'D' && okN != 0) || (other == 'A' && okN != 1) {
					viol = append(viol, fmt.Sprintf("a write did not get exactly its one outcome | other=%c success=%d error=%d", other, okN, badN))
				}
				dig = fmt.Sprint(okN, badN)
			})
			return rt.Outcome{Res: res, Violations: append(viol, panicsAndDeadlocks(res)...), Digest: dig}
		}}
}

//go:norace
func c12get[K comparable](m map[K]int, k K) int { return m[k] }

//go:norace
func c12setInt(p *int, v int) { *p = v }

//go:norace
func c12setStr(p *string, v string) { *p = v }

//go:norace
func c12count[K comparable](m map[K]int, k K) { m[k]++ }

//go:norace
func c12late(l *[]func(), f func()) { *l = append(*l, f) }

//go:norace
func c12lates(l *[]func()) []func() { return *l }

// resLog gives the oracle access to the marks logged so far.
func resLog() []string { return rt.LogSoFar() }

func c12Scenarios(thorough bool) []*engine.SScenario {
	var scs []*engine.SScenario
	vecs := func(n int) []string {
		out := []string{""}
		for i := 0; i < n; i++ {
			var nx []string
			for _, p := range out {
				for _, c := range "ADS" {
					nx = append(nx, p+string(c))
				}
			}
			out = nx
		}
		return out
	}
	for _, v := range vecs(1) {
		scs = append(scs, c12Scenario(1, []string{v}))
	}
	for _, v := range vecs(2) {
		scs = append(scs, c12Scenario(2, []string{v}))
	}
	three := []string{"AAA", "AAD", "ASA", "DDD"}
	pairs := [][]string{{"AA", "AA"}, {"AA", "AD"}, {"AA", "SS"}, {"DA", "AA"}, {"A", "A"}, {"A", "D"}}
	if thorough {
		three = vecs(3)
		pairs = append(pairs, []string{"AS", "AA"}, []string{"AD", "DA"}, []string{"SS", "SS"}, []string{"AA", "SA"}, []string{"D", "A"}, []string{"S", "A"})
	}
	for _, v := range three {
		scs = append(scs, c12Scenario(3, []string{v}))
	}
	for _, p := range pairs {
		scs = append(scs, c12Scenario(len(p[0]), p))
	}
	scs = append(scs, c12ReconnectScenario(1), c12ReconnectScenario(2))
	for _, busy := range []int{0, 1} {
		scs = append(scs, c12BusyCallbackScenario(busy, 'D'), c12BusyCallbackScenario(busy, 'A'))
	}
	return scs
}

func init() {
	engine.Register(&engine.Check{
		ID:        "C12",
		NeedsRace: true,
		Scenarios: func(c *engine.Ctx) []*engine.SScenario { return c12Scenarios(c.Thorough) },
		Drivers:   func(c *engine.Ctx) []*engine.HDriver { return c12Drivers(c.Thorough) },
		Run: func(c *engine.Ctx) *engine.Report {
			rep := &engine.Report{Level: "model_checking", Coverage: map[string]any{"exhaustive": true}}
			mergeS(c, rep, c12Scenarios(c.Thorough), engine.SPlan{Bounds: boundsFor(c, []int{0, 1, 2}, []int{0, 1, 2, 3}), Race: true, RaceMaxBound: 1, RaceFuncs: []string{"ApproveOrDenyWrite", "addPendingApproval", "processWriteApprovalCallbacks"}})
			for _, d := range c12Drivers(c.Thorough) {
				// the canonical state space (pending sets, tallies, answered verdicts, connection) is finite: closure
				st := engine.RunHistories(c, d, 64, rep)
				engine.AddHCoverage(rep, d.Name, st, len(d.Alphabet))
			}
			rep.Assumptions = []string{"the approval timeout is a virtual timer whose expiry is a scheduler choice at any point (cost 1 when something else could run); verdicts are delivered from the goroutines the stack starts for the callbacks"}
			return rep
		},
	})
}
