package checks

import (
	"fmt"
	"sort"
	"strings"

	rt "github.com/enbility/spine-go/internal/verifrt"

	"github.com/enbility/spine-go/api"
	"github.com/enbility/spine-go/internal/verifh/engine"
	"github.com/enbility/spine-go/internal/verifh/world"
	"github.com/enbility/spine-go/model"
	"github.com/enbility/spine-go/spine"
)

// C20 — the use-case registry reflects exactly what the application declared.

type ucVal struct {
	version   string
	available bool
	scen      string
}

type ucWorld struct {
	w    *world.World
	ents map[string]api.EntityLocalInterface
	m    map[string]ucVal // "e|actor|name"
	gone map[string]bool
}

var ucEnts = map[string][]uint{"e1": {1}, "e2": {2}, "e11": {1, 1}}
var ucActors = map[string]model.UseCaseActorType{"a1": model.UseCaseActorTypeCEM, "a2": model.UseCaseActorTypeEVSE}
var ucNames = map[string]model.UseCaseNameType{"u1": model.UseCaseNameTypeLimitationOfPowerConsumption, "u2": model.UseCaseNameTypeEVSECommissioningAndConfiguration}

func newUCWorld() *ucWorld { return newUCWorldEv(false) }

func newUCWorldEv(events bool) *ucWorld { return newUCWorldDetached(events, "") }

// newUCWorldDetached: the named entity is created for the device but not added to it yet (an application may
// declare its use cases first and add the entity afterwards).
func newUCWorldDetached(events bool, detached string) *ucWorld {
	u := &ucWorld{w: world.New(events), ents: map[string]api.EntityLocalInterface{}, m: map[string]ucVal{}, gone: map[string]bool{}}
	for _, k := range []string{"e1", "e2", "e11"} {
		if k == detached {
			u.ents[k] = spine.NewEntityLocal(u.w.L, model.EntityTypeTypeCEM, spine.NewAddressEntityType(ucEnts[k]), 0)
			continue
		}
		u.ents[k] = u.w.AddLocalEntity(ucEnts[k], model.EntityTypeTypeCEM, 0)
	}
	u.w.ConnectAndAnnounce("A", "dA", []world.EntSpec{clientEntity([]uint{1})})
	return u
}

func scenList(s string) []model.UseCaseScenarioSupportType {
	var out []model.UseCaseScenarioSupportType
	for _, c := range s {
		out = append(out, model.UseCaseScenarioSupportType(c-'0'))
	}
	return out
}

func (u *ucWorld) do(op string) {
	f := strings.Split(op, ":")
	e := u.ents[f[1]]
	switch f[0] {
	case "add":
		e.AddUseCaseSupport(ucActors[f[2]], ucNames[f[3]], model.SpecificationVersionType(f[4]), "rev"+f[4], f[5] == "t", scenList(f[6]))
	case "remove":
		e.RemoveUseCaseSupport(ucActors[f[2]], ucNames[f[3]])
	case "avail":
		e.SetUseCaseAvailability(ucActors[f[2]], ucNames[f[3]], f[4] == "t")
	case "removeall":
		e.RemoveAllUseCaseSupports()
	case "rmentity":
		u.w.L.RemoveEntity(e)
	case "attach":
		if u.w.L.Entity(spine.NewAddressEntityType(ucEnts[f[1]])) == nil {
			u.w.L.AddEntity(e)
		}
	}
}

func (u *ucWorld) model(op string) {
	f := strings.Split(op, ":")
	switch f[0] {
	case "add":
		u.m[f[1]+"|"+f[2]+"|"+f[3]] = ucVal{f[4], f[5] == "t", f[6]}
	case "remove":
		delete(u.m, f[1]+"|"+f[2]+"|"+f[3])
	case "avail":
		if v, ok := u.m[f[1]+"|"+f[2]+"|"+f[3]]; ok {
			v.available = f[4] == "t"
			u.m[f[1]+"|"+f[2]+"|"+f[3]] = v
		}
	case "removeall", "rmentity":
		for k := range u.m {
			if strings.HasPrefix(k, f[1]+"|") {
				delete(u.m, k)
			}
		}
		if f[0] == "rmentity" {
			u.gone[f[1]] = true
		}
	}
}

func (u *ucWorld) refDump() string {
	var l []string
	for k, v := range u.m {
		l = append(l, fmt.Sprintf("%s=%s/%v/%s", k, v.version, v.available, v.scen))
	}
	sort.Strings(l)
	return strings.Join(l, " ")
}

// observe: HasUseCaseSupport for all triples and the reply to a use-case read from peer A.
func (u *ucWorld) observe() (hasDump, replyDump string, viol []string) {
	var has []string
	for _, e := range []string{"e1", "e11", "e2"} {
		for _, a := range []string{"a1", "a2"} {
			for _, n := range []string{"u1", "u2"} {
				if u.ents[e].HasUseCaseSupport(ucActors[a], ucNames[n]) {
					has = append(has, e+"|"+a+"|"+n)
				}
			}
		}
	}
	sort.Strings(has)
	a := u.w.Peers["A"]
	m := u.w.Mark()
	d := a.Datagram(a.NM(), world.LocalNM(), model.CmdClassifierTypeRead, false, nil, model.CmdType{NodeManagementUseCaseData: &model.NodeManagementUseCaseDataType{}})
	a.Deliver(d)
	rt.WaitIdle()
	var l []string
	replies := 0
	for _, o := range u.w.Since(m) {
		if o.Class != "reply" || o.Cmd.NodeManagementUseCaseData == nil {
			continue
		}
		replies++
		for _, info := range o.Cmd.NodeManagementUseCaseData.UseCaseInformation {
			ek, ak := "?", "?"
			for k, v := range ucEnts {
				if info.Address != nil && fmt.Sprint(info.Address.Entity) == fmt.Sprint(v) && info.Address.Device != nil && *info.Address.Device == world.LocalAddr {
					ek = k
				}
			}
			for k, v := range ucActors {
				if info.Actor != nil && *info.Actor == v {
					ak = k
				}
			}
			if len(info.UseCaseSupport) == 0 {
				viol = append(viol, "the use-case reply contains an entry without use cases")
			}
			for _, s := range info.UseCaseSupport {
				nk := "?"
				for k, v := range ucNames {
					if s.UseCaseName != nil && *s.UseCaseName == v {
						nk = k
					}
				}
				ver, av, sc := "", false, ""
				if s.UseCaseVersion != nil {
					ver = string(*s.UseCaseVersion)
				}
				if s.UseCaseAvailable != nil {
					av = *s.UseCaseAvailable
				}
				for _, x := range s.ScenarioSupport {
					sc += fmt.Sprint(uint(x))
				}
				if s.UseCaseDocumentSubRevision == nil || *s.UseCaseDocumentSubRevision != "rev"+ver {
					viol = append(viol, "the use-case reply carries a wrong document sub-revision")
				}
				l = append(l, fmt.Sprintf("%s|%s|%s=%s/%v/%s", ek, ak, nk, ver, av, sc))
			}
		}
	}
	if replies != 1 {
		viol = append(viol, fmt.Sprintf("a use-case read was answered with %d replies", replies))
	}
	sort.Strings(l)
	for i := 1; i < len(l); i++ {
		if strings.Split(l[i], "=")[0] == strings.Split(l[i-1], "=")[0] {
			viol = append(viol, "the use-case reply lists one use case twice | "+l[i])
		}
	}
	return strings.Join(has, " "), strings.Join(l, " "), viol
}

func (u *ucWorld) judge(op string) []string {
	has, reply, viol := u.observe()
	var keys []string
	for k := range u.m {
		keys = append(keys, k)
	}
	sort.Strings(keys)
	if has != strings.Join(keys, " ") {
		viol = append(viol, fmt.Sprintf("HasUseCaseSupport differs from the declared registry | op=%s\n want=%s\n got=%s", op, strings.Join(keys, " "), has))
	}
	if reply != u.refDump() {
		viol = append(viol, fmt.Sprintf("the use-case data read by a peer differs from the declared registry | op=%s\n want=%s\n got=%s", op, u.refDump(), reply))
	}
	return viol
}

func c20Alphabet(thorough bool) []string {
	var a []string
	ents := []string{"e1", "e11", "e2"}
	for _, e := range ents {
		a = append(a, "add:"+e+":a1:u1:1.0.0:t:12", "add:"+e+":a1:u2:1.0.0:f:1")
		a = append(a, "remove:"+e+":a1:u1", "avail:"+e+":a1:u1:f", "removeall:"+e)
	}
	a = append(a, "add:e1:a2:u1:1.0.0:t:1", "add:e1:a1:u1:2.0.0:f:1", "remove:e1:a2:u1", "remove:e1:a1:u2", "avail:e1:a1:u2:t", "avail:e1:a2:u1:f", "rmentity:e1", "rmentity:e11")
	if thorough {
		a = append(a, "add:e2:a2:u2:2.0.0:t:12", "remove:e2:a2:u2", "avail:e1:a1:u1:t", "add:e11:a2:u1:1.0.0:t:1", "remove:e11:a2:u1", "rmentity:e2")
	}
	return a
}

// c20DetachedDriver: entity [2] exists as an object of the device but is added to it only by the operation
// attach:e2 — use cases declared before that count like any other (registry and what a peer reads).
func c20DetachedDriver() *engine.HDriver {
	// rmentity:e2 is the remove-all path of the registry through DeviceLocal.RemoveEntity; it is used on the entity while it
	// is attached, before it ever was, and again through the handle the application still holds after a removal.
	alpha := []string{"add:e2:a1:u1:1.0.0:t:12", "add:e2:a1:u2:1.0.0:f:1", "remove:e2:a1:u1", "avail:e2:a1:u1:f", "removeall:e2", "attach:e2",
		"add:e1:a1:u1:1.0.0:t:12", "remove:e1:a1:u1", "rmentity:e2"}
	return &engine.HDriver{Name: "use-cases-declared-before-AddEntity", Alphabet: alpha,
		Step: func(hist []string, op string) engine.HStep {
			u := newUCWorldDetached(false, "e2")
			rt.WaitIdle()
			for _, h := range hist {
				u.do(h)
				u.model(h)
			}
			rt.WaitIdle()
			var st engine.HStep
			if op != "" {
				before := u.refDump()
				u.do(op)
				u.model(op)
				rt.WaitIdle()
				st.Violations = u.judge(op)
				st.Effect = before != u.refDump() || op == "attach:e2" || op == "rmentity:e2"
				st.Digest = strings.Split(op, ":")[0] + fmt.Sprint(st.Effect)
			}
			_, reply, _ := u.observe()
			st.Key = reply + fmt.Sprint(" attached=", u.w.L.Entity(spine.NewAddressEntityType(ucEnts["e2"])) != nil)
			st.Cut = reply != u.refDump()
			return st
		}}
}

func c20Drivers(thorough bool) []*engine.HDriver {
	alpha := c20Alphabet(thorough)
	return []*engine.HDriver{c20DetachedDriver(), {Name: "use-cases", Alphabet: alpha,
		Ops: func(hist []string) []string {
			gone := map[string]bool{}
			for _, h := range hist {
				if strings.HasPrefix(h, "rmentity:") {
					gone[strings.Split(h, ":")[1]] = true
				}
			}
			var out []string
			for _, a := range alpha {
				if !gone[strings.Split(a, ":")[1]] {
					out = append(out, a)
				}
			}
			return out
		},
		Step: func(hist []string, op string) engine.HStep {
			u := newUCWorld()
			rt.WaitIdle()
			for _, h := range hist {
				u.do(h)
				u.model(h)
			}
			rt.WaitIdle()
			var st engine.HStep
			if op != "" {
				before := u.refDump()
				u.do(op)
				u.model(op)
				rt.WaitIdle()
				st.Violations = u.judge(op)
				st.Effect = before != u.refDump()
				st.Digest = strings.Split(op, ":")[0] + fmt.Sprint(st.Effect)
			}
			_, reply, _ := u.observe()
			var g []string
			for k := range u.gone {
				g = append(g, k)
			}
			sort.Strings(g)
			st.Key = reply + " gone=" + strings.Join(g, ",")
			st.Cut = reply != u.refDump()
			return st
		}}}
}

func c20Scenarios(thorough bool) []*engine.SScenario {
	mk := func(t1, t2 []string, pre []string) *engine.SScenario {
		name := fmt.Sprintf("pre=%s | %s || %s", strings.Join(pre, ","), strings.Join(t1, ","), strings.Join(t2, ","))
		return &engine.SScenario{Name: name, Run: func(cfg rt.Config) rt.Outcome {
			var viol []string
			var dig string
			res := rt.Execute(cfg, func() {
				u := newUCWorld()
				for _, h := range pre {
					u.do(h)
					u.model(h)
				}
				rt.WaitIdle()
				rt.BeginExplore()
				rt.Go(func() {
					for _, op := range t1 {
						u.do(op)
					}
				})
				rt.Go(func() {
					for _, op := range t2 {
						u.do(op)
					}
				})
				rt.WaitIdle()
				rt.JoinFinished()
				// the threads work on different entities: their operations commute
				for _, op := range append(append([]string{}, t1...), t2...) {
					u.model(op)
				}
				viol = u.judge("concurrent")
				_, dig, _ = u.observe()
			})
			return rt.Outcome{Res: res, Violations: append(viol, panicsAndDeadlocks(res)...), Digest: dig}
		}}
	}
	scs := []*engine.SScenario{
		mk([]string{"add:e1:a1:u1:1.0.0:t:12"}, []string{"add:e2:a1:u1:1.0.0:t:12"}, nil),
		mk([]string{"add:e1:a1:u2:1.0.0:t:1", "avail:e1:a1:u1:f"}, []string{"remove:e2:a1:u1"}, []string{"add:e1:a1:u1:1.0.0:t:12", "add:e2:a1:u1:1.0.0:t:12"}),
		mk([]string{"removeall:e1"}, []string{"add:e11:a1:u1:1.0.0:t:12", "avail:e11:a1:u1:f"}, []string{"add:e1:a1:u1:1.0.0:t:12"}),
	}
	if thorough {
		scs = append(scs,
			mk([]string{"add:e1:a1:u1:1.0.0:t:12", "remove:e1:a1:u1"}, []string{"add:e2:a2:u2:1.0.0:t:1", "avail:e2:a2:u2:f"}, nil),
			mk([]string{"rmentity:e1"}, []string{"add:e2:a1:u1:1.0.0:t:12"}, []string{"add:e1:a1:u1:1.0.0:t:12"}))
	}
	return scs
}

func init() {
	engine.Register(&engine.Check{
		ID:        "C20",
		NeedsRace: true,
		Drivers:   func(c *engine.Ctx) []*engine.HDriver { return c20Drivers(c.Thorough) },
		Scenarios: func(c *engine.Ctx) []*engine.SScenario { return c20Scenarios(c.Thorough) },
		Run: func(c *engine.Ctx) *engine.Report {
			rep := &engine.Report{Level: "model_checking", Coverage: map[string]any{}}
			for _, d := range c20Drivers(c.Thorough) {
				depth := 3
				if c.Thorough {
					depth = 5
				}
				st := engine.RunHistories(c, d, depth, rep)
				engine.AddHCoverage(rep, d.Name, st, len(d.Alphabet))
			}
			mergeS(c, rep, c20Scenarios(c.Thorough), engine.SPlan{Bounds: boundsFor(c, []int{0, 1, 2}, []int{0, 1, 2, 3}), Race: true, RaceMaxBound: 1,
				RaceFuncs: []string{"UseCase", "useCase"}})
			return rep
		},
	})
}
