package checks

import (
	"github.com/enbility/spine-go/internal/verifh/engine"
)

// C10 — teardown of one peer or entity never leaks into another (history part).

func c10Alphabet(thorough bool) []string {
	a := []string{
		"sub:A:e1f1:L1lc:lc:d", "sub:B:e1f1:L1lc:lc:d", "sub:A:e2f1:L2lc:lc:d", "sub:B:e2f1:L2lc:lc:d",
		"bind:A:e1f1:L1lc:lc:d", "bind:B:e1f1:L2lc:lc:d", "bind:B:e1f1:L1lc:lc:d", "bind:A:e2f1:L2lc:lc:d",
		"lsub:1:A:1", "lsub:1:B:1", "lbind:1:A:1", "lbind:1:B:1", "lsub:2:A:2", "lsub:1:B:2", "lbind:1:B:2",
		"write:A:e1f1:L1lc:limit:ack:2", "write:B:e1f1:L2lc:limit:ack:2", "write:B:e1f1:L1lc:limit:ack:2", "write:A:e2f1:L2lc:limit:ack:2",
		"disc:A", "disc:B", "entrm:A:1", "entrm:B:1", "entrm:A:2", "reconn:A", "reconn:B", "fire", "set:L1lc:2", "hs:A:B", "hs:B:A",
		// re-announcement of an entity (also of one that is still known: its feature objects are replaced)
		"entadd:A:1",
		// nested addresses: removing the sub-entity [1,1] leaves the entries of its parent [1] alone and vice versa
		"sub:A:e11f1:L1lc:lc:d", "bind:A:e11f1:L2lc:lc:d", "entrm:A:11", "sub:A:e1f1:L11lc:lc:d",
		// a request of the removed peer that its reader was still processing when the connection was removed
		"late:sub:A:e1f1:L1lc", "late:bind:A:e1f1:L2lc", "entrm:A:1:bad",
		// a second discovery reply that omits an entity
		"reply2:A:2",
	}
	if thorough {
		a = append(a, "entadd:B:1", "lsub:2:B:2", "lbind:2:A:2", "sub:A:e1f2:L1lc:lc:d", "entrm:B:2", "set:L2lc:2")
	}
	return a
}

// Early registry entries: a peer may subscribe (its node management to ours) before its detailed discovery
// has arrived — the repository's own TestSubscriptionRequestCall_BeforeDetailedDiscovery does. Every history
// starts with both peers connected and not yet discovered.
var c10EarlyPrelude = []string{"disc:A", "disc:B", "reconn0:A", "reconn0:B"}

func c10EarlyAlphabet(thorough bool) []string {
	a := []string{"sub:A:nm:Lnm:nm:d", "sub:B:nm:Lnm:nm:d", "sub:A:nm:Lnm:nm:n", "ann:A", "ann:B", "disc:A", "disc:B", "reconn0:A", "reconn0:B",
		"unsub:A:nm:Lnm:d", "sub:A:e1f1:L1lc:lc:d", "sub:B:e1f1:L1lc:lc:d", "entrm:A:1"}
	if thorough {
		a = append(a, "unsub:B:nm:Lnm:n", "reconn:A", "reconn:B", "bind:A:e1f1:L1lc:lc:d", "set:L1lc:2", "entrm:B:1")
	}
	return a
}

// Writes pending approval of a peer that is not discovered yet: it announced an entity by a partial notification
// (which does not give the remote device its address), bound a feature of it and wrote; pending approvals are
// kept by SKI and have to go with the connection like those of a discovered peer.
func c10EarlyWriteAlphabet(thorough bool) []string {
	a := []string{"entadd:A:1", "entadd:B:1", "bind:A:e1f1:L1lc:lc:d", "bind:B:e1f1:L2lc:lc:d", "write:A:e1f1:L1lc:limit:ack:2", "write:B:e1f1:L2lc:limit:ack:2",
		"disc:A", "disc:B", "fire", "ann:A"}
	if thorough {
		a = append(a, "reconn0:A", "entrm:A:1", "ann:B")
	}
	return a
}

func c10Drivers(thorough bool) []*engine.HDriver {
	withPrelude := func(d *engine.HDriver) *engine.HDriver {
		step := d.Step
		d.Step = func(hist []string, op string) engine.HStep {
			return step(append(append([]string{}, c10EarlyPrelude...), hist...), op)
		}
		return d
	}
	early := withPrelude(regDriver("teardown-before-discovery", c10EarlyAlphabet(thorough), true, false, nil))
	earlyW := withPrelude(regDriver("teardown-before-discovery-pending-writes", c10EarlyWriteAlphabet(thorough), true, true, nil))
	// a peer answers a repeated discovery read with fewer entities than it announced before, then goes
	second := regDriver("teardown-after-a-second-discovery-reply", []string{"sub:A:e1f1:L1lc:lc:d", "bind:A:e1f1:L1lc:lc:d", "sub:A:e2f1:L2lc:lc:d", "sub:B:e1f1:L1lc:lc:d",
		"reply2:A:2", "reply2:A:1", "reply2:A:1,2", "disc:A", "reconn:A", "bind:B:e1f1:L1lc:lc:d", "set:L1lc:2", "lsub:1:A:1"}, true, true, nil)
	return []*engine.HDriver{regDriver("teardown", c10Alphabet(thorough), true, true, nil), early, earlyW, second}
}

func init() {
	engine.Register(&engine.Check{
		ID:        "C10",
		NeedsRace: true,
		Drivers:   func(c *engine.Ctx) []*engine.HDriver { return c10Drivers(c.Thorough) },
		Scenarios: func(c *engine.Ctx) []*engine.SScenario { return teardownScenarios(c.Thorough) },
		Run: func(c *engine.Ctx) *engine.Report {
			rep := &engine.Report{Level: "model_checking", Coverage: map[string]any{"exhaustive": true}}
			for _, d := range c10Drivers(c.Thorough) {
				depth := 4
				if c.Thorough {
					depth = 6
				}
				st := engine.RunHistories(c, d, depth, rep)
				engine.AddHCoverage(rep, d.Name, st, len(d.Alphabet))
				rep.Coverage["closure_reached"] = st.Closure
				rep.Coverage["max_depth"] = st.MaxDepth
			}
			mergeS(c, rep, teardownScenarios(c.Thorough), engine.SPlan{Bounds: boundsFor(c, []int{0, 1, 2}, []int{0, 1, 2, 3}), Race: true, RaceMaxBound: 1,
				RaceFuncs: []string{"RemoveSubscriptionsFor", "RemoveBindingsFor", "RemoveRemoteDevice", "CleanRemote", "CleanWriteApproval"}})
			return rep
		},
	})
}
