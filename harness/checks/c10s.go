package checks

import (
	"fmt"
	"strings"

	rt "github.com/enbility/spine-go/internal/verifrt"

	"github.com/enbility/spine-go/internal/verifh/engine"
	"github.com/enbility/spine-go/internal/verifh/world"
)

// Schedule part of C10 (and C03): a teardown of peer A (connection removal or
// entity removal) on one thread while a message of peer B is processed on
// another. The two operations touch different peers, so they commute: the final
// state must equal the one a sequential execution reaches (differential oracle on
// a second, fresh world), B's request must be answered exactly as in the
// sequential run, and nothing may be written to A's connection after the
// removal call returned.

var teardownPrelude = []string{"sub:A:e1f1:L1lc:lc:d", "sub:A:e2f1:L2lc:lc:d", "bind:A:e1f1:L1lc:lc:d", "sub:B:e1f1:L1lc:lc:d", "bind:B:e1f1:L2lc:lc:d", "lsub:1:A:1", "lsub:1:B:1"}

func teardownScenario(tear string, bops []string, after []string) *engine.SScenario {
	name := fmt.Sprintf("%s || %s", tear, strings.Join(bops, ","))
	if len(after) > 0 {
		name += " ; then " + strings.Join(after, ",")
	}
	return &engine.SScenario{Name: name, Run: func(cfg rt.Config) rt.Outcome {
		var viol []string
		var dig string
		res := rt.Execute(cfg, func() {
			build := func() *regWorld {
				rw := newRegWorld(false, false)
				rt.WaitIdle()
				for _, op := range teardownPrelude {
					rw.apply(op, false)
				}
				return rw
			}
			// sequential reference (same implementation, operations one after the other)
			ref := build()
			ref.apply(tear, false)
			for _, op := range bops {
				ref.apply(op, false)
			}
			mref := ref.w.Mark()
			for _, op := range after {
				ref.apply(op, false)
			}
			refAfter := outsStr(ref.w.Since(mref))
			refDump, _ := ref.dump()
			// concurrent run
			rw := build()
			var aLenAtReturn int
			aw := rw.w.Peers["A"].W
			mark := rw.w.Mark()
			rt.BeginExplore()
			rt.Go(func() {
				rw.applyImpl(tear)
				aLenAtReturn = aw.Len()
			})
			rt.Go(func() {
				for _, op := range bops {
					rw.applyImpl(op)
				}
			})
			rt.WaitIdle()
			rt.JoinFinished()
			bOuts := 0
			for _, o := range rw.w.Since(mark) {
				if o.Conn == "B" && o.Class == "result" {
					bOuts++
					if o.Err != 0 {
						viol = append(viol, "a request of the other peer was rejected while a peer was torn down | "+o.String())
					}
				}
			}
			if bOuts != len(bops) {
				viol = append(viol, fmt.Sprintf("requests of the other peer were not answered exactly once | results=%d requests=%d", bOuts, len(bops)))
			}
			m2 := rw.w.Mark()
			for _, op := range after {
				rw.applyImpl(op)
				rt.WaitIdle()
			}
			gotAfter := outsStr(rw.w.Since(m2))
			if strings.HasPrefix(tear, "disc") && aw.Len() != aLenAtReturn {
				viol = append(viol, fmt.Sprintf("a datagram was written to the removed connection after the removal returned | %d", aw.Len()-aLenAtReturn))
			}
			got, _ := rw.dump()
			if got != refDump {
				viol = append(viol, stateDiff(got, refDump)+" (reference: sequential execution)")
			}
			if gotAfter != refAfter {
				viol = append(viol, fmt.Sprintf("the other peer is served differently after the teardown than after a sequential execution | sequential=%s concurrent=%s", refAfter, gotAfter))
			}
			dig = got[:strings.Index(got, " conn=")]
		})
		return rt.Outcome{Res: res, Violations: append(viol, panicsAndDeadlocks(res)...), Digest: dig}
	}}
}

func outsStr(outs []world.Out) string {
	var s []string
	for _, o := range outs {
		s = append(s, fmt.Sprintf("%s>%s err=%d fn=%s", o.Conn, o.Class, o.Err, o.Fn))
	}
	return strings.Join(s, ";")
}

// applyImpl performs the implementation side of an operation only (no reference model, thread safe).
func (rw *regWorld) applyImpl(op string) {
	w := rw.w
	f := strings.Split(op, ":")
	switch f[0] {
	case "disc":
		w.L.RemoveRemoteDeviceConnection(f[1])
	default:
		// message operations: build the datagram through the sequential path of a throw-away model
		rw.deliverOnly(op)
	}
}

func teardownScenarios(thorough bool) []*engine.SScenario {
	scs := []*engine.SScenario{
		teardownScenario("disc:A", []string{"sub:B:e2f1:L2lc:lc:d"}, []string{"set:L2lc:2"}),
		teardownScenario("disc:A", []string{"unbind:B:e1f1:L2lc:d"}, []string{"write:B:e1f1:L2lc:limit:ack:2"}),
		teardownScenario("disc:A", []string{"unsub:B:e1f1:L1lc:d"}, []string{"set:L1lc:2"}),
		teardownScenario("entrm:A:1", []string{"unbind:B:e1f1:L2lc:d"}, []string{"write:B:e1f1:L2lc:limit:ack:2"}),
		teardownScenario("entrm:A:2", []string{"sub:B:e2f1:L1lc:lc:d"}, []string{"set:L1lc:2"}),
	}
	if thorough {
		scs = append(scs,
			teardownScenario("disc:A", []string{"write:B:e1f1:L2lc:limit:ack:2"}, []string{"set:L2lc:1"}),
			teardownScenario("disc:A", []string{"unbind:B:e1f1:L2lc:d", "bind:B:e1f2:L2lc:lc:d"}, []string{"write:B:e1f2:L2lc:limit:ack:2"}),
			teardownScenario("entrm:A:1", []string{"sub:B:e2f1:L2lc:lc:d", "unsub:B:e1f1:L1lc:d"}, []string{"set:L1lc:2", "set:L2lc:2"}))
	}
	return append(scs, pairMatrix("C10", thorough)...)
}
