package checks

import (
	"fmt"
	"reflect"
	"sort"
	"strings"

	"github.com/enbility/spine-go/api"
	"github.com/enbility/spine-go/internal/verifh/gen"
	"github.com/enbility/spine-go/internal/verifh/refl"
	"github.com/enbility/spine-go/internal/verifh/world"
	"github.com/enbility/spine-go/model"
	"github.com/enbility/spine-go/spine"
)

// Reflective generator and reference fold for the restricted-exchange update
// rules, shared by C02, C04 and C11. It knows nothing about spine-go's update
// engine: lists are handled as records (field name -> canonical JSON).

type listSpec struct {
	name       string
	typ        reflect.Type // the list data type (struct with one slice field)
	listField  int
	item       reflect.Type
	keys       []int  // item fields tagged eebus:"key"
	keyKind    string // "uint", "string", "none", "other"
	pay        []int  // two payload fields (non-key, not the writecheck field)
	sliceField string // name of the payload field that is a list, if the item type has one
	wcheck     int    // field tagged writecheck, -1 if none
	fn         model.FunctionType
	ft         model.FeatureTypeType
	hasFn      bool
	selT, elT  reflect.Type // nil if not found
}

func eebusTag(f reflect.StructField, key string) bool {
	for _, t := range strings.Split(f.Tag.Get("eebus"), ",") {
		if strings.Split(t, ":")[0] == key {
			return true
		}
	}
	return false
}

var listSpecsCache []*listSpec

// listSpecs discovers every Updater type of the working tree.
func listSpecs() []*listSpec {
	if listSpecsCache != nil {
		return listSpecsCache
	}
	_, regs := acceptedFeatureTypes()
	byPayload := map[reflect.Type]fnReg{}
	for _, r := range regs {
		if r.ft == model.FeatureTypeTypeGeneric {
			continue
		}
		t := reflect.TypeOf(r.fd.DataCopyAny()).Elem()
		if _, ok := byPayload[t]; !ok {
			byPayload[t] = r
		}
	}
	var names []string
	for n := range gen.Updaters {
		names = append(names, n)
	}
	sort.Strings(names)
	var out []*listSpec
	for _, n := range names {
		t := reflect.TypeOf(gen.Updaters[n]()).Elem()
		sp := &listSpec{name: n, typ: t, listField: -1, wcheck: -1}
		for i := 0; i < t.NumField(); i++ {
			if t.Field(i).Type.Kind() == reflect.Slice && t.Field(i).Type.Elem().Kind() == reflect.Struct {
				sp.listField = i
				sp.item = t.Field(i).Type.Elem()
			}
		}
		if sp.listField < 0 {
			continue
		}
		sp.keyKind = "none"
		for i := 0; i < sp.item.NumField(); i++ {
			f := sp.item.Field(i)
			if f.Type.Kind() != reflect.Ptr {
				continue
			}
			switch {
			case eebusTag(f, "key"):
				sp.keys = append(sp.keys, i)
				k := "other"
				switch f.Type.Elem().Kind() {
				case reflect.Uint, reflect.Uint8, reflect.Uint16, reflect.Uint32, reflect.Uint64:
					k = "uint"
				case reflect.String:
					k = "string"
				}
				if sp.keyKind == "none" || sp.keyKind == k {
					sp.keyKind = k
				} else {
					sp.keyKind = "other"
				}
			case eebusTag(f, "writecheck"):
				sp.wcheck = i
			}
		}
		// two payload fields whose generated values v1, v2 differ
		for i := 0; i < sp.item.NumField() && len(sp.pay) < 2; i++ {
			f := sp.item.Field(i)
			if f.Type.Kind() != reflect.Ptr || eebusTag(f, "key") || eebusTag(f, "writecheck") {
				continue
			}
			if world.JSON(refl.Fill(f.Type, 2, 1).Interface()) == world.JSON(refl.Fill(f.Type, 2, 2).Interface()) {
				continue
			}
			sp.pay = append(sp.pay, i)
		}
		// an item field that is itself a list (time series slots, permitted value sets, tier references ...)
		// takes the place of the second payload field: "keeping the fields it does not mention" covers those too
		for i := 0; i < sp.item.NumField(); i++ {
			f := sp.item.Field(i)
			if f.Type.Kind() != reflect.Slice || eebusTag(f, "key") || eebusTag(f, "writecheck") {
				continue
			}
			v1, v2 := refl.Fill(f.Type, 2, 1), refl.Fill(f.Type, 2, 2)
			if v1.Len() == 0 || world.JSON(v1.Interface()) == world.JSON(v2.Interface()) {
				continue
			}
			if len(sp.pay) < 2 {
				sp.pay = append(sp.pay, i)
			} else {
				sp.pay[1] = i
			}
			sp.sliceField = sp.item.Field(i).Name
			break
		}
		if r, ok := byPayload[t]; ok {
			sp.fn, sp.ft, sp.hasFn = r.fd.FunctionType(), r.ft, true
			if st, ok := selectorsType(sp.fn); ok {
				sp.selT = st
			}
			if et, ok := elementsType(sp.fn); ok {
				sp.elT = et
			}
		}
		out = append(out, sp)
	}
	listSpecsCache = out
	return out
}

// ---------------------------------------------------------------- records

type rec map[string]string

func (sp *listSpec) recOf(item reflect.Value) rec {
	r := rec{}
	for i := 0; i < sp.item.NumField(); i++ {
		f := item.Field(i)
		if (f.Kind() == reflect.Ptr || f.Kind() == reflect.Slice) && f.IsNil() {
			continue
		}
		r[sp.item.Field(i).Name] = world.JSON(f.Interface())
	}
	return r
}

func (sp *listSpec) keyNames() []string {
	var k []string
	for _, i := range sp.keys {
		k = append(k, sp.item.Field(i).Name)
	}
	return k
}

func (sp *listSpec) keyOf(r rec) (string, bool) {
	var parts []string
	for _, k := range sp.keyNames() {
		v, ok := r[k]
		if !ok {
			return "", false
		}
		parts = append(parts, fmt.Sprintf("%020s", v))
	}
	return strings.Join(parts, "|"), len(parts) > 0
}

func cloneRecs(l []rec) []rec {
	out := make([]rec, len(l))
	for i, r := range l {
		c := rec{}
		for k, v := range r {
			c[k] = v
		}
		out[i] = c
	}
	return out
}

func recsStr(l []rec) string {
	var parts []string
	for _, r := range l {
		var ks []string
		for k := range r {
			ks = append(ks, k)
		}
		sort.Strings(ks)
		var fs []string
		for _, k := range ks {
			fs = append(fs, k+"="+r[k])
		}
		parts = append(parts, "{"+strings.Join(fs, ",")+"}")
	}
	return "[" + strings.Join(parts, " ") + "]"
}

// itemsOf extracts the items of a list value: *ListType, ListType, or []Item (nil -> empty).
func (sp *listSpec) itemsOf(v any) ([]rec, bool) {
	if v == nil {
		return nil, true
	}
	rv := reflect.ValueOf(v)
	if rv.Kind() == reflect.Ptr {
		if rv.IsNil() {
			return nil, true
		}
		rv = rv.Elem()
	}
	if rv.Kind() == reflect.Struct && rv.Type() == sp.typ {
		rv = rv.Field(sp.listField)
	}
	if rv.Kind() != reflect.Slice || rv.Type().Elem() != sp.item {
		return nil, false
	}
	var out []rec
	for i := 0; i < rv.Len(); i++ {
		out = append(out, sp.recOf(rv.Index(i)))
	}
	return out, true
}

// ---------------------------------------------------------------- generated items

// itemSpec describes one generated item: id (0 = no identifier), payload variant per payload field
// ('-' nil, '1' v1, '2' v2), flag: 't' true, 'f' false, '-' absent (writecheck field)
type itemSpec struct {
	id   int
	pay  string
	flag byte
}

// setKey: for single-key types the identifier is id; for multi-key types id enumerates the
// cross product of {1,2} per key field (id 1 -> (1,1,..), 2 -> (..,1,2), 3 -> (..,2,1), ...), so that
// identifiers exist whose first key is larger while a later key is smaller.
func (sp *listSpec) setKey(item reflect.Value, id int) {
	m := len(sp.keys)
	for pos, ki := range sp.keys {
		f := item.Field(ki)
		p := reflect.New(f.Type().Elem())
		switch sp.keyKind {
		case "uint":
			v := uint64(id)
			if m > 1 {
				v = uint64(((id-1)>>(m-1-pos))&1) + 1
				if pos == 0 {
					v += uint64((id - 1) >> m) // ids beyond the cross product stay distinct
				}
			}
			p.Elem().SetUint(v)
		case "string":
			p.Elem().SetString(string(rune('a' + id - 1)))
		}
		f.Set(p)
	}
}

func (sp *listSpec) build(is itemSpec) reflect.Value {
	item := reflect.New(sp.item).Elem()
	if is.id > 0 {
		sp.setKey(item, is.id)
	}
	for j, pi := range sp.pay {
		if j >= len(is.pay) || is.pay[j] == '-' {
			continue
		}
		item.Field(pi).Set(refl.Fill(sp.item.Field(pi).Type, 2, int(is.pay[j]-'0')))
	}
	if sp.wcheck >= 0 && is.flag != '-' && is.flag != 0 {
		f := item.Field(sp.wcheck)
		if f.Type().Elem().Kind() == reflect.Bool {
			b := is.flag == 't'
			f.Set(reflect.ValueOf(&b))
		}
	}
	return item
}

// list builds a *ListType holding the items.
func (sp *listSpec) list(items []itemSpec) any {
	l := reflect.New(sp.typ)
	s := reflect.MakeSlice(sp.typ.Field(sp.listField).Type, 0, len(items))
	for _, is := range items {
		s = reflect.Append(s, sp.build(is))
	}
	l.Elem().Field(sp.listField).Set(s)
	return l.Interface()
}

func (sp *listSpec) recs(items []itemSpec) []rec {
	var out []rec
	for _, is := range items {
		out = append(out, sp.recOf(sp.build(is)))
	}
	return out
}

func specsStr(items []itemSpec) string {
	var p []string
	for _, is := range items {
		s := fmt.Sprintf("%d:%s", is.id, is.pay)
		if is.flag != 0 && is.flag != '-' {
			s += string(is.flag)
		}
		p = append(p, s)
	}
	return "[" + strings.Join(p, " ") + "]"
}

// ---------------------------------------------------------------- filters

type filterSpec struct {
	partial     bool
	partialSel  int // id selected by the partial filter (0: none)
	del         bool
	delSel      int  // id selected by the delete filter (0: none)
	delSelPay   bool // the delete selector selects on payload field 0 == v1 instead of the id
	delElements bool // the delete filter names payload field 0
	delSub      bool // ... and, inside it, only its first sub-element (e.g. value.scale): what exactly is cleared is left open
}

func (f filterSpec) String() string {
	var p []string
	if f.del {
		s := "delete"
		if f.delSel > 0 {
			s += fmt.Sprintf("+selector(id=%d)", f.delSel)
		}
		if f.delSelPay {
			s += "+selector(payload)"
		}
		if f.delElements {
			s += "+elements"
		}
		if f.delSub {
			s += "(sub-element)"
		}
		p = append(p, s)
	}
	if f.partial {
		s := "partial"
		if f.partialSel > 0 {
			s += fmt.Sprintf("+selector(id=%d)", f.partialSel)
		}
		p = append(p, s)
	}
	if len(p) == 0 {
		return "none"
	}
	return strings.Join(p, ",")
}

// selectorFor builds a selectors value selecting id (by the key-named fields) or payload field 0 == v1.
func (sp *listSpec) selectorFor(id int, byPayload bool) (any, bool) {
	if sp.selT == nil {
		return nil, false
	}
	s := reflect.New(sp.selT)
	set := 0
	names := sp.keyNames()
	if byPayload {
		// (what a selector made of a list-valued field alone selects is not defined by the statement)
		if len(sp.pay) == 0 || sp.item.Field(sp.pay[0]).Type.Kind() != reflect.Ptr {
			return nil, false
		}
		names = []string{sp.item.Field(sp.pay[0]).Name}
	}
	src := sp.build(itemSpec{id: id, pay: "11"})
	for _, n := range names {
		f := s.Elem().FieldByName(n)
		iv := src.FieldByName(n)
		if !f.IsValid() {
			return nil, false
		}
		switch {
		case f.Type() == iv.Type():
			f.Set(iv)
		case f.Kind() == reflect.Ptr && iv.Kind() == reflect.Ptr && iv.Elem().Type().ConvertibleTo(f.Type().Elem()) && iv.Elem().Kind() == f.Type().Elem().Kind():
			// the selectors declare the field with another named type of the same kind (the data model is not
			// consistent here): the selector still means "the item whose field has this value"
			p := reflect.New(f.Type().Elem())
			p.Elem().Set(iv.Elem().Convert(f.Type().Elem()))
			f.Set(p)
		case f.Kind() == reflect.Slice && iv.Kind() == reflect.Ptr && iv.Elem().Type().ConvertibleTo(f.Type().Elem()) && iv.Elem().Kind() == f.Type().Elem().Kind():
			// a list-valued selector field: "any of these values"; one value given
			sl := reflect.MakeSlice(f.Type(), 1, 1)
			sl.Index(0).Set(iv.Elem().Convert(f.Type().Elem()))
			f.Set(sl)
		default:
			return nil, false
		}
		set++
	}
	return s.Interface(), set > 0
}

// elementsSubFor: like elementsFor, but the elements value of payload field 0 names its first sub-element only.
func (sp *listSpec) elementsSubFor() (any, bool) {
	e, n, ok := sp.elementsFor()
	if !ok {
		return nil, false
	}
	f := reflect.ValueOf(e).Elem().FieldByName(n).Elem()
	if f.Kind() != reflect.Struct {
		return nil, false
	}
	for i := 0; i < f.NumField(); i++ {
		if f.Field(i).Kind() == reflect.Ptr && f.Field(i).Type().Elem().Kind() == reflect.Struct {
			f.Field(i).Set(reflect.New(f.Field(i).Type().Elem()))
			return e, true
		}
	}
	return nil, false
}

func (sp *listSpec) elementsFor() (any, string, bool) {
	if sp.elT == nil || len(sp.pay) == 0 || sp.elT.NumField() != sp.item.NumField() || sp.item.Field(sp.pay[0]).Type.Kind() != reflect.Ptr {
		return nil, "", false
	}
	n := sp.item.Field(sp.pay[0]).Name
	e := reflect.New(sp.elT)
	f := e.Elem().FieldByName(n)
	if !f.IsValid() || f.Kind() != reflect.Ptr {
		return nil, "", false
	}
	f.Set(reflect.New(f.Type().Elem()))
	return e.Interface(), n, true
}

// filters builds the two FilterType values; ok=false if the shape cannot be expressed for this type.
func (sp *listSpec) filters(fs filterSpec) (fp, fd *model.FilterType, ok bool) {
	setField := func(f *model.FilterType, v any) bool {
		// the conventional field of FilterType is the one of this value's type
		fv := reflect.ValueOf(f).Elem()
		for i := 0; i < fv.NumField(); i++ {
			if fv.Field(i).Type() == reflect.TypeOf(v) {
				fv.Field(i).Set(reflect.ValueOf(v))
				return true
			}
		}
		return false
	}
	if fs.partial {
		fp = model.NewFilterTypePartial()
		if fs.partialSel > 0 {
			s, ok := sp.selectorFor(fs.partialSel, false)
			if !ok || !setField(fp, s) {
				return nil, nil, false
			}
		}
	}
	if fs.del {
		fd = &model.FilterType{CmdControl: &model.CmdControlType{Delete: &model.ElementTagType{}}}
		if fs.delSel > 0 || fs.delSelPay {
			s, ok := sp.selectorFor(maxInt(fs.delSel, 1), fs.delSelPay)
			if !ok || !setField(fd, s) {
				return nil, nil, false
			}
		}
		if fs.delElements {
			e, _, ok := sp.elementsFor()
			if fs.delSub {
				e, ok = sp.elementsSubFor()
			}
			if !ok || !setField(fd, e) {
				return nil, nil, false
			}
		}
	}
	return fp, fd, true
}

func maxInt(a, b int) int {
	if a > b {
		return a
	}
	return b
}

// ---------------------------------------------------------------- the reference fold

// foldUpdate applies one update to a record list by the SPINE cmdOption rules.
// known=false: the statement leaves this case open (not judged).
func (sp *listSpec) foldUpdate(existing []rec, upd []rec, fs filterSpec) (result []rec, known bool) {
	cur := cloneRecs(existing)
	upd = cloneRecs(upd)
	if !fs.partial && !fs.del {
		return upd, true
	}
	if fs.delSub {
		return nil, false
	}
	matchID := func(r rec, id int) bool {
		want := sp.recOf(sp.build(itemSpec{id: id}))
		for _, k := range sp.keyNames() {
			if r[k] != want[k] {
				return false
			}
		}
		return true
	}
	if fs.del {
		_, elName, _ := sp.elementsFor()
		payName := ""
		if len(sp.pay) > 0 {
			payName = sp.item.Field(sp.pay[0]).Name
		}
		v1 := ""
		if payName != "" {
			v1 = sp.recOf(sp.build(itemSpec{id: 1, pay: "1"}))[payName]
		}
		match := func(r rec) bool {
			switch {
			case fs.delSel > 0:
				return matchID(r, fs.delSel)
			case fs.delSelPay:
				return r[payName] == v1
			}
			return true
		}
		var next []rec
		for _, r := range cur {
			if !match(r) {
				next = append(next, r)
				continue
			}
			if fs.delElements {
				delete(r, elName)
				next = append(next, r)
			} else if fs.delSel > 0 || fs.delSelPay {
				// drop the item
			} else {
				next = append(next, r) // a delete filter without selector and elements does nothing
			}
		}
		cur = next
	}
	if fs.partial {
		switch {
		case fs.partialSel > 0:
			if len(upd) != 1 {
				return nil, false
			}
			for _, r := range cur {
				if matchID(r, fs.partialSel) {
					for k, v := range upd[0] {
						r[k] = v
					}
					break
				}
			}
		case len(upd) == 0:
			// nothing to merge
		default:
			if _, has := sp.keyOf(upd[0]); !has {
				if len(upd) != 1 {
					return nil, false
				}
				for _, r := range cur {
					for k, v := range upd[0] {
						r[k] = v
					}
				}
				break
			}
			idx := map[string]int{}
			for i, r := range cur {
				k, _ := sp.keyOf(r)
				idx[k] = i
			}
			for _, u := range upd {
				k, has := sp.keyOf(u)
				if !has {
					return nil, false
				}
				if i, ok := idx[k]; ok {
					for f, v := range u {
						cur[i][f] = v
					}
				} else {
					idx[k] = len(cur)
					cur = append(cur, u)
				}
			}
			sort.SliceStable(cur, func(i, j int) bool {
				a, _ := sp.keyOf(cur[i])
				b, _ := sp.keyOf(cur[j])
				return a < b
			})
		}
	}
	return cur, true
}

// ---------------------------------------------------------------- features holding a function

type updFeatures struct {
	local  api.FeatureLocalInterface
	remote api.FeatureRemoteInterface
}

var updWorld struct {
	w    *world.World
	dev  api.DeviceRemoteInterface
	ent  api.EntityRemoteInterface
	lent api.EntityLocalInterface
	byFT map[model.FeatureTypeType]*updFeatures
	n    uint
}

// featuresFor returns a local server feature and a remote server feature of the type that holds sp's function.
func featuresFor(sp *listSpec) *updFeatures {
	if !sp.hasFn {
		return nil
	}
	u := &updWorld
	if u.w == nil {
		u.w = world.New(false)
		u.lent = u.w.AddLocalEntity([]uint{1}, model.EntityTypeTypeCEM, 0)
		u.dev = spine.NewDeviceRemote(u.w.L, "X", spine.NewSender(&world.Writer{Name: "X"}))
		u.ent = spine.NewEntityRemote(u.dev, model.EntityTypeTypeCEM, spine.NewAddressEntityType([]uint{1}))
		u.byFT = map[model.FeatureTypeType]*updFeatures{}
		u.n = 10
	}
	if f, ok := u.byFT[sp.ft]; ok {
		return f
	}
	u.n++
	f := &updFeatures{
		local:  spine.NewFeatureLocal(u.n, u.lent, sp.ft, model.RoleTypeServer),
		remote: spine.NewFeatureRemote(u.n, u.ent, sp.ft, model.RoleTypeServer),
	}
	u.byFT[sp.ft] = f
	return f
}
