package checks

import (
	"regexp"
	"fmt"
	"sort"
	"strings"
	"time"

	rt "github.com/enbility/spine-go/internal/verifrt"

	"github.com/enbility/spine-go/api"
	"github.com/enbility/spine-go/internal/verifh/engine"
	"github.com/enbility/spine-go/internal/verifh/world"
	"github.com/enbility/spine-go/model"
	"github.com/enbility/spine-go/spine"
	"github.com/enbility/spine-go/util"
)

// The registry driver is shared by C03, C08, C09 and C10: one closed world
// (local device with entities [1],[2]; peers A and B with identical numbering),
// a string-encoded operation alphabet, and a boring reference model of the
// subscription/binding registries, connection state, remote trees and data.

// ---------------------------------------------------------------- variants

type featVar struct {
	ent    []uint
	feat   uint
	exists bool
	role   model.RoleType
	typ    model.FeatureTypeType
}

var serverVars = map[string]featVar{
	"L1lc": {[]uint{1}, lLCServer, true, model.RoleTypeServer, model.FeatureTypeTypeLoadControl},
	"L2lc": {[]uint{2}, lLCServer, true, model.RoleTypeServer, model.FeatureTypeTypeLoadControl},
	// sub-entity [1,1] of [1] with the same feature numbers (worlds built with nested entities only)
	"L11lc": {[]uint{1, 1}, lLCServer, true, model.RoleTypeServer, model.FeatureTypeTypeLoadControl},
	"L1ms":  {[]uint{1}, lMeasServer, true, model.RoleTypeServer, model.FeatureTypeTypeMeasurement},
	"L1cl":  {[]uint{1}, lLCClient, true, model.RoleTypeClient, model.FeatureTypeTypeLoadControl},
	"Lnm":   {[]uint{0}, 0, true, model.RoleTypeSpecial, model.FeatureTypeTypeNodeManagement},
	// a Generic server feature (worlds whose operations mention it only): fits every requested type
	"L1gen": {[]uint{1}, 5, true, model.RoleTypeServer, model.FeatureTypeTypeGeneric},
	"L1x":   {[]uint{1}, 9, false, "", ""},
	"L9":    {[]uint{9}, 1, false, "", ""},
}

// client features as announced by every peer (clientEntity)
func clientVar(c string) featVar {
	if c == "nm" {
		return featVar{[]uint{0}, 0, true, model.RoleTypeSpecial, model.FeatureTypeTypeNodeManagement}
	}
	// e<entity digits>f<feature>: e1f1 = [1]/1, e11f1 = [1,1]/1
	var f uint
	i := strings.Index(c, "f")
	fmt.Sscanf(c[i+1:], "%d", &f)
	var ent []uint
	for _, ch := range c[1:i] {
		ent = append(ent, uint(ch-'0'))
	}
	v := featVar{ent: ent, feat: f}
	if code := entCode(ent); code != 1 && code != 2 && code != 11 {
		return v
	}
	switch f {
	case 1, 2:
		v.exists, v.role, v.typ = true, model.RoleTypeClient, model.FeatureTypeTypeLoadControl
	case 3:
		v.exists, v.role, v.typ = true, model.RoleTypeClient, model.FeatureTypeTypeMeasurement
	case 4:
		v.exists, v.role, v.typ = true, model.RoleTypeServer, model.FeatureTypeTypeLoadControl
	case 5:
		v.exists, v.role, v.typ = true, model.RoleTypeServer, model.FeatureTypeTypeMeasurement
	}
	return v
}

// entCode / entAddr: entity addresses as decimal codes ([1] = 1, [1,1] = 11) for operation strings and model keys.
func entCode(a []uint) uint {
	c := uint(0)
	for _, x := range a {
		c = c*10 + x
	}
	return c
}

func entAddr(code uint) []uint {
	if code < 10 {
		return []uint{code}
	}
	return append(entAddr(code/10), code%10)
}

var typeVars = map[string]model.FeatureTypeType{"lc": model.FeatureTypeTypeLoadControl, "ms": model.FeatureTypeTypeMeasurement, "nm": model.FeatureTypeTypeNodeManagement,
	"gen": model.FeatureTypeTypeGeneric} // requested for features that are not Generic: not "the requested type"

// ---------------------------------------------------------------- reference model

type regEntry struct{ peer, c, s string }

type pendW struct {
	peer string
	ctr  uint64
	s    string
	v    int
	c    string // the writing client feature
	ack  bool
}

type regModel struct {
	subs, binds []regEntry
	conn        map[string]bool
	ents        map[string]map[uint]bool
	data        map[string]int // server variant -> value id currently stored (limit list)
	lsubs       map[string]bool
	lbinds      map[string]bool
	pend        []pendW
	undisc      map[string]bool // connected, detailed discovery not yet received
	uc          int             // use case of local entity [1]: 0 not declared, 1 not available, 2 available
	nested      bool            // peers also announce [1,1]
}

func (m *regModel) allEnts() map[uint]bool {
	e := map[uint]bool{0: true, 1: true, 2: true}
	if m.nested {
		e[11] = true
	}
	return e
}

func newRegModel() *regModel {
	m := &regModel{conn: map[string]bool{}, ents: map[string]map[uint]bool{}, data: map[string]int{}, lsubs: map[string]bool{}, lbinds: map[string]bool{}, undisc: map[string]bool{}}
	for _, p := range []string{"A", "B"} {
		m.conn[p] = true
		m.ents[p] = m.allEnts()
	}
	return m
}

func has(l []regEntry, e regEntry) bool {
	for _, x := range l {
		if x == e {
			return true
		}
	}
	return false
}

func (m *regModel) clientOK(p, c string, t model.FeatureTypeType) bool {
	cv := clientVar(c)
	if !m.conn[p] || !cv.exists || !m.ents[p][entCode(cv.ent)] {
		return false
	}
	return (cv.role == model.RoleTypeClient || cv.role == model.RoleTypeSpecial) && (cv.typ == t || cv.typ == model.FeatureTypeTypeGeneric)
}

func (m *regModel) clientExists(p, c string) bool {
	cv := clientVar(c)
	return m.conn[p] && cv.exists && m.ents[p][entCode(cv.ent)]
}

func serverOK(s string, t model.FeatureTypeType) bool {
	sv := serverVars[s]
	return sv.exists && (sv.role == model.RoleTypeServer || sv.role == model.RoleTypeSpecial) && (sv.typ == t || sv.typ == model.FeatureTypeTypeGeneric)
}

func dropWhere(l []regEntry, f func(regEntry) bool) ([]regEntry, int) {
	var out []regEntry
	n := 0
	for _, e := range l {
		if f(e) {
			n++
		} else {
			out = append(out, e)
		}
	}
	return out, n
}

// ---------------------------------------------------------------- the world under test

type regWorld struct {
	w        *world.World
	m        *regModel
	approval bool // both LoadControl servers have a (silent) write approval callback
	evOn     bool
	pendMsgs []*api.Message
	nested   bool
	servers  []string // LoadControl server variants of this world
}

func limitList(v int, ids ...uint) *model.LoadControlLimitListDataType {
	l := &model.LoadControlLimitListDataType{}
	for _, id := range ids {
		l.LoadControlLimitData = append(l.LoadControlLimitData, model.LoadControlLimitDataType{
			LimitId:           util.Ptr(model.LoadControlLimitIdType(id)),
			IsLimitChangeable: util.Ptr(true),
			IsLimitActive:     util.Ptr(v%2 == 0),
			Value:             model.NewScaledNumberType(float64(1000 * v)),
		})
	}
	return l
}

func limitDescList(v int) *model.LoadControlLimitDescriptionListDataType {
	return &model.LoadControlLimitDescriptionListDataType{LoadControlLimitDescriptionData: []model.LoadControlLimitDescriptionDataType{
		{LimitId: util.Ptr(model.LoadControlLimitIdType(1)), Description: util.Ptr(model.DescriptionType(fmt.Sprint("desc", v)))},
	}}
}

func newRegWorld(events, approval bool) *regWorld { return newRegWorldN(events, approval, false) }

// peerEnts: what every peer announces (identical numbers on every peer).
func peerEnts(nested bool) []world.EntSpec {
	e := []world.EntSpec{clientEntity([]uint{1}), clientEntity([]uint{2})}
	if nested {
		e = []world.EntSpec{clientEntity([]uint{1}), clientEntity([]uint{1, 1}), clientEntity([]uint{2})}
	}
	return e
}

// newRegWorldN: with nested set, the local device also has the sub-entity [1,1] (same feature numbers as its
// parent [1]) and every peer announces a sub-entity [1,1] with the same client features, so that every address
// comparison by prefix, by length or by last element has a colliding instance.
func newRegWorldN(events, approval, nested bool) *regWorld {
	return newRegWorldG(events, approval, nested, false)
}

// newRegWorldG: with generic set, local entity [1] also has a server feature of type Generic (feature 5).
func newRegWorldG(events, approval, nested, generic bool) *regWorld {
	w := world.New(events)
	stdLocal(w)
	if generic {
		world.AddLocalFeature(w.L.Entity(spine.NewAddressEntityType([]uint{1})).(*spine.EntityLocal), model.FeatureTypeTypeGeneric, model.RoleTypeServer)
	}
	servers := []string{"L1lc", "L2lc"}
	if nested {
		stdLocalEntity(w, []uint{1, 1})
		servers = append(servers, "L11lc")
	}
	for _, p := range []string{"A", "B"} {
		w.ConnectAndAnnounce(p, "d"+p, peerEnts(nested))
	}
	rw := &regWorld{w: w, m: newRegModel(), approval: approval, nested: nested, servers: servers}
	rw.m.nested = nested
	for _, p := range []string{"A", "B"} {
		rw.m.ents[p] = rw.m.allEnts()
	}
	for _, s := range servers {
		f := rw.local(s)
		f.SetData(fnLimit, limitList(1, 1, 2))
		rw.m.data[s] = 1
	}
	if approval {
		for _, s := range []string{"L1lc", "L2lc"} {
			_ = rw.local(s).AddWriteApprovalCallback(func(msg *api.Message) { rw.addPend(msg) })
		}
	}
	return rw
}

//go:norace
func (rw *regWorld) addPend(m *api.Message) { rw.pendMsgs = append(rw.pendMsgs, m) }

//go:norace
func (rw *regWorld) takePend() []*api.Message {
	m := rw.pendMsgs
	rw.pendMsgs = nil
	return m
}

func (rw *regWorld) local(s string) api.FeatureLocalInterface {
	sv := serverVars[s]
	return rw.w.L.FeatureByAddress(world.FAddr(world.LocalAddr, sv.ent, sv.feat))
}

func srvAddr(s string, withDev bool) *model.FeatureAddressType {
	sv := serverVars[s]
	d := ""
	if withDev {
		d = world.LocalAddr
	}
	return world.FAddr(d, sv.ent, sv.feat)
}

// cliAddrMode: "d" own device address, "n" device part omitted, "x" the OTHER peer's device address (a
// request that names a client feature of another device: it can never denote an entry of the sender).
func cliAddrMode(p, c, mode string) *model.FeatureAddressType {
	if mode == "x" {
		a := cliAddr(p, c, true)
		other := "dA"
		if p == "A" {
			other = "dB"
		}
		a.Device = util.Ptr(model.AddressDeviceType(other))
		return a
	}
	return cliAddr(p, c, mode == "d")
}

func cliAddr(p, c string, withDev bool) *model.FeatureAddressType {
	cv := clientVar(c)
	d := ""
	if withDev {
		d = "d" + p
	}
	return world.FAddr(d, cv.ent, cv.feat)
}

// cliStr renders a client feature address without its device part: registry entries are listed per peer
// (by connection), and a remote feature created before the peer's discovery arrived carries no device part.
func cliStr(a *model.FeatureAddressType) string {
	if a == nil {
		return "<nil>"
	}
	b := *a
	b.Device = nil
	return world.AddrStr(&b)
}

// dump renders the implementation's registries, trees, data and bookkeeping
// canonically; it is the BFS state key and is compared with the model's dump.
func (rw *regWorld) dump() (impl, ref string) {
	w, m := rw.w, rw.m
	var is, ib []string
	ids := map[string]bool{}
	dupID := false
	peers := []string{"A", "B"}
	for _, p := range peers {
		pe := w.Peers[p]
		if w.L.RemoteDeviceForSki(p) == nil {
			continue
		}
		for _, e := range w.L.SubscriptionManager().Subscriptions(pe.Dev) {
			is = append(is, fmt.Sprintf("%s:%s>%s", p, cliStr(e.ClientFeature.Address()), world.AddrStr(e.ServerFeature.Address())))
			k := fmt.Sprint("s", e.Id)
			dupID = dupID || ids[k]
			ids[k] = true
		}
		for _, e := range w.L.BindingManager().Bindings(pe.Dev) {
			ib = append(ib, fmt.Sprintf("%s:%s>%s", p, cliStr(e.ClientFeature.Address()), world.AddrStr(e.ServerFeature.Address())))
			k := fmt.Sprint("b", e.Id)
			dupID = dupID || ids[k]
			ids[k] = true
		}
	}
	sort.Strings(is)
	sort.Strings(ib)
	var ms, mb []string
	for _, e := range m.subs {
		ms = append(ms, fmt.Sprintf("%s:%s>%s", e.peer, cliStr(cliAddr(e.peer, e.c, true)), world.AddrStr(srvAddr(e.s, true))))
	}
	for _, e := range m.binds {
		mb = append(mb, fmt.Sprintf("%s:%s>%s", e.peer, cliStr(cliAddr(e.peer, e.c, true)), world.AddrStr(srvAddr(e.s, true))))
	}
	sort.Strings(ms)
	sort.Strings(mb)
	// connections and trees
	var ic, mc []string
	for _, p := range peers {
		d := w.L.RemoteDeviceForSki(p)
		byAddr := w.L.RemoteDeviceForAddress(model.AddressDeviceType("d" + p))
		// (a peer whose discovery has not arrived has no known address yet)
		if (d == nil) != (byAddr == nil) && !m.undisc[p] {
			ic = append(ic, p+":ski/address resolution disagree")
		}
		if d != nil {
			var es []string
			for _, e := range d.Entities() {
				if len(e.Address().Entity) == 1 || rw.nested { // (without nesting: sub-entities are C06's subject, compared there)
					es = append(es, fmt.Sprint(e.Address().Entity))
				}
			}
			sort.Strings(es)
			ic = append(ic, p+strings.Join(es, ""))
		}
		if m.conn[p] {
			var es []string
			for e := range m.ents[p] {
				es = append(es, fmt.Sprint(entAddr(e)))
			}
			sort.Strings(es)
			mc = append(mc, p+strings.Join(es, ""))
		}
	}
	// data
	var id, md []string
	for _, s := range rw.servers {
		id = append(id, s+"="+world.JSON(rw.local(s).DataCopy(fnLimit)))
		md = append(md, s+"="+world.JSON(limitList(m.data[s], 1, 2)))
		// functions no remote write may change: announced read-only, and not announced at all
		id = append(id, s+".desc="+world.JSON(rw.local(s).DataCopy(fnLimitDesc))+" "+s+".constr="+world.JSON(rw.local(s).DataCopy(model.FunctionTypeLoadControlLimitConstraintsListData)))
		md = append(md, s+".desc=null "+s+".constr=null")
	}
	// local client bookkeeping and pending approvals
	var il, ml []string
	for _, e := range []uint{1, 2} {
		f := w.L.FeatureByAddress(world.FAddr(world.LocalAddr, []uint{e}, lLCClient))
		for _, p := range peers {
			for _, re := range []uint{1, 2} {
				ra := world.FAddr("d"+p, []uint{re}, 4)
				k := fmt.Sprintf("L%d|%s|%d", e, p, re)
				if f.HasSubscriptionToRemote(ra) {
					il = append(il, "s"+k)
				}
				if f.HasBindingToRemote(ra) {
					il = append(il, "b"+k)
				}
				if m.lsubs[k] {
					ml = append(ml, "s"+k)
				}
				if m.lbinds[k] {
					ml = append(ml, "b"+k)
				}
			}
		}
	}
	sort.Strings(il)
	sort.Strings(ml)
	ip, mps := "", ""
	for _, s := range []string{"L1lc", "L2lc"} {
		x := spine.VerifFeatureState(rw.local(s))
		ip += s + ":" + x[:strings.Index(x, " tally=")] + " "
		var mp []string
		for _, pw := range m.pend {
			if pw.s == s {
				mp = append(mp, fmt.Sprintf("%s/%d", pw.peer, pw.ctr))
			}
		}
		sort.Strings(mp)
		mps += fmt.Sprintf("%s:pend=%v ", s, mp)
	}
	impl = fmt.Sprintf("subs=%v binds=%v conn=%v data=%v local=%v timers=[%d] %s", is, ib, ic, id, il, rt.PendingTimers(), ip)
	ref = fmt.Sprintf("subs=%v binds=%v conn=%v data=%v local=%v timers=[%d] %s", ms, mb, mc, md, ml, len(m.pend), mps)
	if dupID {
		impl += " DUPLICATE-ID"
	}
	return
}

var pendRe = regexp.MustCompile(`pend=\[[^\]]*\]`)

// rankCounters replaces the message counters in "peer/counter" entries by their rank among the entries of that peer:
// absolute counters depend on the length of the history, what later behaviour can depend on is which is older.
func rankCounters(l []string) []string {
	by := map[string][]int{}
	for _, e := range l {
		i := strings.LastIndex(e, "/")
		if i < 0 {
			continue
		}
		by[e[:i]] = append(by[e[:i]], atoi(e[i+1:]))
	}
	var out []string
	for p, cs := range by {
		sort.Ints(cs)
		for r := range cs {
			out = append(out, fmt.Sprintf("%s/#%d", p, r))
		}
	}
	sort.Strings(out)
	return out
}

func (rw *regWorld) identityKey() string {
	var s []string
	for _, p := range []string{"A", "B"} {
		pe := rw.w.Peers[p]
		d := rw.w.L.RemoteDeviceForSki(p)
		if d == nil {
			continue
		}
		for _, e := range rw.w.L.SubscriptionManager().Subscriptions(pe.Dev) {
			if d.FeatureByAddress(e.ClientFeature.Address()) != e.ClientFeature {
				s = append(s, "s"+p+cliStr(e.ClientFeature.Address())+">"+world.AddrStr(e.ServerFeature.Address()))
			}
		}
		for _, e := range rw.w.L.BindingManager().Bindings(pe.Dev) {
			if d.FeatureByAddress(e.ClientFeature.Address()) != e.ClientFeature {
				s = append(s, "b"+p+cliStr(e.ClientFeature.Address())+">"+world.AddrStr(e.ServerFeature.Address()))
			}
		}
	}
	sort.Strings(s)
	// the shape of the private bookkeeping maps of the written features (an entry that is an empty map is not the
	// same as no entry: code that creates one map of a pair on demand and the other unconditionally tells them apart)
	shape := ""
	for _, l := range []string{"L1lc", "L2lc"} {
		shape += " " + l + "{" + spine.VerifFeatureShape(rw.local(l)) + "}"
	}
	// who wrote the writes that wait for approval, oldest first (the removal of the writer's entity drops exactly those)
	pw := append([]pendW{}, rw.m.pend...)
	sort.Slice(pw, func(i, j int) bool {
		if pw[i].peer != pw[j].peer {
			return pw[i].peer < pw[j].peer
		}
		return pw[i].ctr < pw[j].ctr
	})
	writers := ""
	for _, x := range pw {
		writers += fmt.Sprintf(" %s:%s>%s=%d", x.peer, x.c, x.s, x.v)
	}
	// the ids of the registry entries, as ranks, in the order the registries hold them: how ids are handed out later may
	// depend on which ids are in use and where they stand (for a counter that only grows this adds nothing to the key)
	ids := spine.VerifRegistryOrder(rw.w.L)
	return " replaced=" + strings.Join(s, ",") + fmt.Sprintf(" uc=%d", rw.m.uc) + shape + " writers=[" + writers + "] ids=" + ids
}

// expectation for the outbound trace of one operation
type expOut struct {
	conn, class, src, dst string
	ref                   int64 // -1: any/none
	err                   int   // -1: not a result; 0: success; 1: any error
	fn                    string
	data                  string // canonical JSON of the payload, "" = don't compare
}

func matchOuts(got []world.Out, exp []expOut) []string {
	var v []string
	used := make([]bool, len(got))
	for _, e := range exp {
		found := false
		for i, g := range got {
			if used[i] || g.Conn != e.conn || g.Class != e.class {
				continue
			}
			if e.src != "" && g.Src != e.src {
				continue
			}
			if e.dst != "" && g.Dst != e.dst {
				continue
			}
			if e.ref >= 0 && g.Ref != e.ref {
				continue
			}
			if e.err == 0 && g.Err != 0 {
				continue
			}
			if e.err == 1 && g.Err <= 0 {
				continue
			}
			if e.fn != "" && g.Fn != e.fn {
				continue
			}
			if e.data != "" {
				cd, err := g.Cmd.Data()
				if err != nil || world.JSON(cd.Value) != e.data {
					continue
				}
			}
			used[i] = true
			found = true
			break
		}
		if !found {
			v = append(v, fmt.Sprintf("expected datagram missing | %+v", e))
		}
	}
	for i, g := range got {
		if !used[i] {
			v = append(v, fmt.Sprintf("unexpected datagram | %s", g))
		}
	}
	return v
}

func evCount(evs []world.EventRec, t api.EventType, ch api.ElementChangeType) int {
	n := 0
	for _, e := range evs {
		if e.Type == t && e.Change == ch {
			n++
		}
	}
	return n
}

// apply executes one operation on the implementation and the model; when judge
// is set the observable outcome is compared with the model's expectation.
func (rw *regWorld) apply(op string, judge bool) (viol []string, digest string, effect bool) {
	w, m := rw.w, rw.m
	f := strings.Split(op, ":")
	mark := w.Mark()
	cn := func(p string) string { return w.Peers[p].W.Name }
	var exp []expOut
	expEv := map[string]int{}
	addV := func(s string) { viol = append(viol, s) }
	tolerateReread := false
	asked := judge
	switch f[0] {
	case "hs":
		// peer p connects; before it has answered the discovery read, peer q's connection is removed; then p
		// announces itself. p must be served like any newly connected peer: the stack subscribes to its
		// node management and asks for its use cases exactly once.
		p, q := f[1], f[2]
		if m.conn[p] || !m.conn[q] {
			break
		}
		effect = true
		judge = false
		ents := peerEnts(rw.nested)
		pe := w.Connect(p, "d"+p)
		pe.Ents = ents
		rt.WaitIdle()
		rw.apply("disc:"+q, false)
		m2 := w.Mark()
		pe.Deliver(pe.DiscoveryReply(ents))
		rt.WaitIdle()
		nsub, nuc := 0, 0
		for _, o := range w.Since(m2) {
			if o.Conn != pe.W.Name {
				addV("the announcement of a peer made the stack write to another connection | " + o.String() + " op=" + op)
				continue
			}
			switch {
			case o.Class == "call" && o.Fn == "NodeManagementSubscriptionRequestCall":
				nsub++
			case o.Class == "read" && o.Fn == "NodeManagementUseCaseData":
				nuc++
			}
		}
		if nsub != 1 || nuc != 1 {
			addV(fmt.Sprintf("a peer that announces itself after another peer was removed is not served like a new peer | nodeManagement subscription requests=%d use-case reads=%d (want 1 and 1) op=%s", nsub, nuc, op))
		}
		m.conn[p] = true
		m.ents[p] = m.allEnts()
	case "late":
		// a subscription or binding request of peer p that is still being processed by the connection's reader
		// after the connection was removed: nothing may be registered for the removed device and nothing written
		p := f[2]
		pe := w.Peers[p]
		if m.conn[p] || pe == nil {
			break
		}
		effect = true
		var d model.DatagramType
		if f[1] == "bind" {
			d = pe.BindCall(cliAddr(p, f[3], true), srvAddr(f[4], true), model.FeatureTypeTypeLoadControl)
		} else {
			d = pe.SubscribeCall(cliAddr(p, f[3], true), srvAddr(f[4], true), model.FeatureTypeTypeLoadControl)
		}
		pe.Deliver(d)
		rt.WaitIdle()
		// the registries are per manager, not per connected device: look at all entries
		for _, srv := range rw.servers {
			fa := *srvAddr(srv, true)
			for _, e := range w.L.SubscriptionManager().SubscriptionsOnFeature(fa) {
				if e.ClientFeature.Device().Ski() == p {
					addV("a subscription was registered for a device whose connection had been removed | op=" + op)
				}
			}
			for _, e := range w.L.BindingManager().BindingsOnFeature(fa) {
				if e.ClientFeature.Device().Ski() == p {
					addV("a binding was registered for a device whose connection had been removed | op=" + op)
				}
			}
		}
	case "idrm":
		// idrm:<kind>:<peer>: peer sends a delete call that carries only the id of an entry of the OTHER peer (ids are
		// readable by everybody from the subscription / binding data) and no addresses: whatever a stack does with
		// id-only deletes of the owner, this one names no entry of the sender — nothing is removed, one error result
		kind, p := f[1], f[2]
		pe := w.Peers[p]
		other := map[string]string{"A": "B", "B": "A"}[p]
		if !m.conn[p] || !m.conn[other] || w.Peers[other] == nil {
			break
		}
		var cmd model.CmdType
		found := false
		if kind == "s" {
			if l := w.L.SubscriptionManager().Subscriptions(w.Peers[other].Dev); len(l) > 0 {
				id := model.SubscriptionIdType(l[0].Id)
				cmd = model.CmdType{NodeManagementSubscriptionDeleteCall: &model.NodeManagementSubscriptionDeleteCallType{SubscriptionDelete: &model.SubscriptionManagementDeleteCallType{SubscriptionId: &id}}}
				found = true
			}
		} else {
			if l := w.L.BindingManager().Bindings(w.Peers[other].Dev); len(l) > 0 {
				id := model.BindingIdType(l[0].Id)
				cmd = model.CmdType{NodeManagementBindingDeleteCall: &model.NodeManagementBindingDeleteCallType{BindingDelete: &model.BindingManagementDeleteCallType{BindingId: &id}}}
				found = true
			}
		}
		if !found {
			break
		}
		d := pe.Datagram(pe.NM(), world.LocalNM(), model.CmdClassifierTypeCall, true, nil, cmd)
		exp = append(exp, expOut{conn: cn(p), class: "result", src: world.AddrStr(world.LocalNM()), dst: world.AddrStr(pe.NM()), ref: int64(*d.Header.MsgCounter), err: 1})
		pe.Deliver(d)
	case "sub", "bind", "unsub", "unbind":
		p, c, s := f[1], f[2], f[3]
		pe := w.Peers[p]
		if !m.conn[p] {
			break // a removed connection delivers nothing
		}
		isBind := f[0] == "bind" || f[0] == "unbind"
		var d model.DatagramType
		var grant bool
		list := &m.subs
		evT := api.EventTypeSubscriptionChange
		if isBind {
			list = &m.binds
			evT = api.EventTypeBindingChange
		}
		if f[0] == "sub" || f[0] == "bind" {
			t := typeVars[f[4]]
			withDev := f[5] == "d"
			if isBind {
				d = pe.BindCall(cliAddr(p, c, withDev), srvAddr(s, withDev), t)
			} else {
				d = pe.SubscribeCall(cliAddr(p, c, withDev), srvAddr(s, withDev), t)
			}
			grant = serverOK(s, t) && m.clientOK(p, c, t) && !has(*list, regEntry{p, c, s})
			if isBind && grant {
				for _, e := range m.binds {
					if e.s == s {
						grant = false
					}
				}
			}
			if grant {
				*list = append(*list, regEntry{p, c, s})
				expEv[fmt.Sprint(evT, api.ElementChangeAdd)]++
			}
		} else {
			withDev := f[4] != "n"
			if isBind {
				d = pe.UnbindCall(cliAddrMode(p, c, f[4]), srvAddr(s, withDev))
			} else {
				d = pe.UnsubscribeCall(cliAddrMode(p, c, f[4]), srvAddr(s, withDev))
			}
			// a delete that names a client feature of another device addresses no entry of the sender
			grant = has(*list, regEntry{p, c, s}) && f[4] != "x"
			if grant {
				*list, _ = dropWhere(*list, func(e regEntry) bool { return e == regEntry{p, c, s} })
				expEv[fmt.Sprint(evT, api.ElementChangeRemove)]++
			}
		}
		effect = grant
		e := expOut{conn: cn(p), class: "result", src: world.AddrStr(world.LocalNM()), dst: world.AddrStr(pe.NM()), ref: int64(*d.Header.MsgCounter), err: 1}
		if grant {
			e.err = 0
		}
		exp = append(exp, e)
		pe.Deliver(d)
	case "lrepl":
		// the application removes the local entity [n] and adds a new entity object with the same address and the same
		// features (a vehicle is unplugged, another one plugged in). The features of the old entity are gone, and with
		// them what was subscribed or bound to them: the new features start without subscribers and without binding.
		addr := []uint{uint(atoi(f[1]))}
		if old := w.L.Entity(spine.NewAddressEntityType(addr)); old != nil {
			w.L.RemoveEntity(old)
		}
		stdLocalEntity(w, addr)
		onEnt := func(e regEntry) bool { return fmt.Sprint(serverVars[e.s].ent) == fmt.Sprint(addr) }
		var n int
		m.subs, n = dropWhere(m.subs, onEnt)
		expEv[fmt.Sprint(api.EventTypeSubscriptionChange, api.ElementChangeRemove)] += n
		m.binds, n = dropWhere(m.binds, onEnt)
		expEv[fmt.Sprint(api.EventTypeBindingChange, api.ElementChangeRemove)] += n
		for _, sv := range rw.servers {
			if fmt.Sprint(serverVars[sv].ent) == fmt.Sprint(addr) {
				rw.local(sv).SetData(fnLimit, limitList(1, 1, 2))
				m.data[sv] = 1
			}
		}
		effect = true
	case "uc":
		// the use case data of the local node management feature (special role, subscribed by every real peer)
		// changes: a use case of entity [1] is added, or its availability is set
		ent := w.L.Entity(spine.NewAddressEntityType([]uint{1}))
		if m.uc == 0 {
			ent.AddUseCaseSupport(model.UseCaseActorTypeCEM, ucNames["u1"], "1.0.0", "r", f[1] == "1", scenList("12"))
		} else {
			ent.SetUseCaseAvailability(model.UseCaseActorTypeCEM, ucNames["u1"], f[1] == "1")
		}
		m.uc = 1 + atoi(f[1])
		effect = true
		for _, e := range m.subs {
			if e.s == "Lnm" {
				exp = append(exp, expOut{conn: cn(e.peer), class: "notify", src: world.AddrStr(world.LocalNM()), dst: world.AddrStr(cliAddr(e.peer, e.c, true)),
					ref: -1, err: -1, fn: "NodeManagementUseCaseData", data: world.JSON(w.L.NodeManagement().DataCopy(model.FunctionTypeNodeManagementUseCaseData))})
			}
		}
	case "set", "upd":
		s, v := f[1], atoi(f[2])
		fl := rw.local(s)
		if f[0] == "set" {
			fl.SetData(fnLimit, limitList(v, 1, 2))
		} else {
			fl.UpdateData(fnLimit, limitList(v, 1, 2), model.NewFilterTypePartial(), nil)
		}
		m.data[s] = v
		effect = true
		exp = append(exp, rw.fanout(s, f[0] == "upd")...)
	case "write":
		p, c, s, fn, ack, v := f[1], f[2], f[3], f[4], f[5] == "ack", atoi(f[6])
		pe := w.Peers[p]
		if !m.conn[p] {
			break
		}
		var cmd model.CmdType
		writable := false
		if fn == "limit" {
			cmd = model.CmdType{LoadControlLimitListData: limitList(v, 1, 2)}
			writable = s == "L1lc" || s == "L2lc" || s == "L11lc"
		} else if fn == "constr" {
			// a function of the feature type that the server feature does not announce at all
			cmd = model.CmdType{LoadControlLimitConstraintsListData: &model.LoadControlLimitConstraintsListDataType{LoadControlLimitConstraintsData: []model.LoadControlLimitConstraintsDataType{
				{LimitId: util.Ptr(model.LoadControlLimitIdType(1)), ValueStepSize: model.NewScaledNumberType(float64(v))}}}}
		} else {
			cmd = model.CmdType{LoadControlLimitDescriptionListData: limitDescList(v)}
		}
		// optional 8th field: device part of the source address in the header — "x" names the OTHER peer's
		// device, "n" omits it; the writer is the feature of the connection the datagram arrives on either way
		srcA := cliAddr(p, c, true)
		if len(f) > 7 {
			srcA = cliAddrMode(p, c, f[7])
		}
		d := pe.Datagram(srcA, srvAddr(s, true), model.CmdClassifierTypeWrite, ack, nil, cmd)
		srcKnown := m.clientExists(p, c)
		accept := srcKnown && serverVars[s].exists && writable && has(m.binds, regEntry{p, c, s})
		pending := accept && rw.approval
		switch {
		case pending:
			m.pend = append(m.pend, pendW{p, uint64(*d.Header.MsgCounter), s, v, c, ack})
		case accept:
			effect = true
			m.data[s] = v
			exp = append(exp, rw.fanout(s, false)...)
			expEv[fmt.Sprint(api.EventTypeDataChange, api.ElementChangeUpdate)]++
			if ack {
				exp = append(exp, expOut{conn: cn(p), class: "result", src: world.AddrStr(srvAddr(s, true)), dst: world.AddrStr(srcA), ref: int64(*d.Header.MsgCounter), err: 0})
			}
		case srcKnown:
			exp = append(exp, expOut{conn: cn(p), class: "result", src: world.AddrStr(srvAddr(s, true)), dst: world.AddrStr(srcA), ref: int64(*d.Header.MsgCounter), err: 1})
		}
		pe.Deliver(d)
	case "disc":
		p := f[1]
		if m.conn[p] {
			effect = true
			var n int
			m.subs, n = dropWhere(m.subs, func(e regEntry) bool { return e.peer == p })
			expEv[fmt.Sprint(api.EventTypeSubscriptionChange, api.ElementChangeRemove)] += n
			m.binds, n = dropWhere(m.binds, func(e regEntry) bool { return e.peer == p })
			expEv[fmt.Sprint(api.EventTypeBindingChange, api.ElementChangeRemove)] += n
			m.conn[p] = false
			m.undisc[p] = false
			for k := range m.lsubs {
				if strings.Split(k, "|")[1] == p {
					delete(m.lsubs, k)
				}
			}
			for k := range m.lbinds {
				if strings.Split(k, "|")[1] == p {
					delete(m.lbinds, k)
				}
			}
			var np []pendW
			for _, pw := range m.pend {
				if pw.peer != p {
					np = append(np, pw)
				}
			}
			m.pend = np
			expEv[fmt.Sprint(api.EventTypeDeviceChange, api.ElementChangeRemove)]++
		}
		if effect {
			w.L.RemoveRemoteDeviceConnection(p)
		}
	case "reconn":
		p := f[1]
		if !m.conn[p] {
			effect = true
			m.conn[p] = true
			m.ents[p] = m.allEnts()
			w.ConnectAndAnnounce(p, "d"+p, peerEnts(rw.nested))
			judge = false // the connection handshake is C06/C01 territory
		}
	case "reconn0":
		// the connection is set up, the peer's detailed discovery has not arrived yet
		p := f[1]
		if !m.conn[p] {
			effect = true
			m.conn[p] = true
			m.undisc[p] = true
			m.ents[p] = map[uint]bool{0: true}
			w.Connect(p, "d"+p)
			judge = false
		}
	case "ann":
		// the discovery reply of a peer connected with reconn0
		p := f[1]
		if m.conn[p] && m.undisc[p] {
			effect = true
			m.undisc[p] = false
			m.ents[p] = m.allEnts()
			pe := w.Peers[p]
			pe.Ents = peerEnts(rw.nested)
			pe.Deliver(pe.DiscoveryReply(pe.Ents))
			judge = false
		}
	case "entrm", "entadd":
		p, e := f[1], uint(atoi(f[2]))
		pe := w.Peers[p]
		// (a peer may announce entities by partial notifications before its discovery reply has arrived)
		if !m.conn[p] {
			break
		}
		st := model.NetworkManagementStateChangeTypeRemoved
		ents := []world.EntSpec{{Addr: entAddr(e), Type: model.EntityTypeTypeCEM}}
		if f[0] == "entadd" {
			st = model.NetworkManagementStateChangeTypeAdded
			ents = []world.EntSpec{clientEntity(entAddr(e))}
		}
		cmd := model.CmdType{
			Function:                            util.Ptr(model.FunctionTypeNodeManagementDetailedDiscoveryData),
			Filter:                              []model.FilterType{*model.NewFilterTypePartial()},
			NodeManagementDetailedDiscoveryData: pe.DiscoveryData(ents, false, &st),
		}
		if len(f) > 3 && f[3] == "bad" {
			// the notification lists a second element that cannot be processed (no lastStateChange): what the first
			// element announced has happened all the same
			bad := pe.DiscoveryData([]world.EntSpec{{Addr: []uint{7}, Type: model.EntityTypeTypeCEM}}, false, nil)
			cmd.NodeManagementDetailedDiscoveryData.EntityInformation = append(cmd.NodeManagementDetailedDiscoveryData.EntityInformation, bad.EntityInformation...)
		}
		d := pe.Datagram(pe.NM(), world.LocalNM(), model.CmdClassifierTypeNotify, false, nil, cmd)
		if len(f) > 3 && f[3] == "bad" {
			// (the notification as a whole is rejected: one error result, C01)
			exp = append(exp, expOut{conn: cn(p), class: "result", ref: int64(*d.Header.MsgCounter), err: 1})
			// ... and the stack asks the peer for its complete discovery data again (unless that request is still
			// unanswered): that read is the stack's own business (C13) and not judged here
			tolerateReread = true
		}
		if f[0] == "entrm" && m.ents[p][e] {
			effect = true
			delete(m.ents[p], e)
			var n int
			m.subs, n = dropWhere(m.subs, func(x regEntry) bool { return x.peer == p && entCode(clientVar(x.c).ent) == e })
			expEv[fmt.Sprint(api.EventTypeSubscriptionChange, api.ElementChangeRemove)] += n
			m.binds, n = dropWhere(m.binds, func(x regEntry) bool { return x.peer == p && entCode(clientVar(x.c).ent) == e })
			expEv[fmt.Sprint(api.EventTypeBindingChange, api.ElementChangeRemove)] += n
			expEv[fmt.Sprint(api.EventTypeEntityChange, api.ElementChangeRemove)]++
			// "... pending write approvals ... that refer to that device or entity disappear"
			var np []pendW
			for _, pw := range m.pend {
				if !(pw.peer == p && entCode(clientVar(pw.c).ent) == e) {
					np = append(np, pw)
				}
			}
			m.pend = np
			for _, l := range []uint{1, 2} {
				delete(m.lsubs, fmt.Sprintf("L%d|%s|%d", l, p, e))
				delete(m.lbinds, fmt.Sprintf("L%d|%s|%d", l, p, e))
			}
		}
		if f[0] == "entadd" && !m.ents[p][e] {
			effect = true
			m.ents[p][e] = true
			expEv[fmt.Sprint(api.EventTypeEntityChange, api.ElementChangeAdd)]++
		}
		pe.Deliver(d)
	case "reply2":
		// reply2:<peer>:<entities>: a second detailed-discovery reply of a discovered peer that lists only some of its
		// entities. What a stack does with the entities the reply omits is left open (C06); the model adopts it. But IF
		// an omitted entity is gone afterwards, it is gone like an entity announced as removed: its registry entries,
		// pending writes and the client-side bookkeeping go with it — and a later removal of the connection leaves
		// nothing of this peer behind either way.
		p := f[1]
		pe := w.Peers[p]
		if !m.conn[p] || m.undisc[p] {
			break
		}
		keep := map[uint]bool{}
		for _, k := range strings.Split(f[2], ",") {
			keep[uint(atoi(k))] = true
		}
		var ents []world.EntSpec
		for _, es := range peerEnts(rw.nested) {
			if keep[entCode(es.Addr)] {
				ents = append(ents, es)
			}
		}
		pe.Deliver(pe.DiscoveryReply(ents))
		rt.WaitIdle()
		judge = false
		effect = true
		// entities the reply lists and the stack (now) knows: adopted as well
		for e := range keep {
			if e != 0 && pe.Dev.Entity(spine.NewAddressEntityType(entAddr(e))) != nil {
				m.ents[p][e] = true
			}
		}
		for e := range m.ents[p] {
			if e == 0 || pe.Dev.Entity(spine.NewAddressEntityType(entAddr(e))) != nil {
				continue
			}
			delete(m.ents[p], e)
			m.subs, _ = dropWhere(m.subs, func(x regEntry) bool { return x.peer == p && entCode(clientVar(x.c).ent) == e })
			m.binds, _ = dropWhere(m.binds, func(x regEntry) bool { return x.peer == p && entCode(clientVar(x.c).ent) == e })
			var np []pendW
			for _, pw := range m.pend {
				if !(pw.peer == p && entCode(clientVar(pw.c).ent) == e) {
					np = append(np, pw)
				}
			}
			m.pend = np
			for _, l := range []uint{1, 2} {
				delete(m.lsubs, fmt.Sprintf("L%d|%s|%d", l, p, e))
				delete(m.lbinds, fmt.Sprintf("L%d|%s|%d", l, p, e))
			}
		}
	case "lsub", "lbind":
		le, p, re := uint(atoi(f[1])), f[2], uint(atoi(f[3]))
		lf := w.L.FeatureByAddress(world.FAddr(world.LocalAddr, []uint{le}, lLCClient))
		ra := world.FAddr("d"+p, []uint{re}, 4)
		k := fmt.Sprintf("L%d|%s|%d", le, p, re)
		judge = false // outbound requests are C13's subject; only the bookkeeping matters here
		if m.conn[p] {
			effect = true
			if f[0] == "lsub" {
				if !m.lsubs[k] {
					_, _ = lf.SubscribeToRemote(ra)
				}
				m.lsubs[k] = true
			} else {
				if !m.lbinds[k] {
					_, _ = lf.BindToRemote(ra)
				}
				m.lbinds[k] = true
			}
		}
	case "appr":
		// the application approves every write it was shown and has not answered yet — in the order they were shown,
		// including writes the stack dropped meanwhile (the application does not know): only those still waiting are
		// applied, each acknowledged on its own connection and announced to the subscribers
		msgs := rw.takePend()
		for _, pw := range m.pend {
			effect = true
			m.data[pw.s] = pw.v
			exp = append(exp, rw.fanout(pw.s, false)...)
			expEv[fmt.Sprint(api.EventTypeDataChange, api.ElementChangeUpdate)]++
			if pw.ack {
				exp = append(exp, expOut{conn: cn(pw.peer), class: "result", ref: int64(pw.ctr), err: 0})
			}
		}
		m.pend = nil
		for _, msg := range msgs {
			if msg.RequestHeader == nil || msg.RequestHeader.AddressDestination == nil {
				continue
			}
			if fl := w.L.FeatureByAddress(msg.RequestHeader.AddressDestination); fl != nil {
				fl.ApproveOrDenyWrite(msg, model.ErrorType{ErrorNumber: 0})
			}
		}
	case "fire":
		// let every approval timeout expire: each pending write gets its timeout error on its own connection
		for _, pw := range m.pend {
			effect = true
			exp = append(exp, expOut{conn: cn(pw.peer), class: "result", ref: int64(pw.ctr), err: 1})
		}
		m.pend = nil
		rt.Advance(time.Minute)
	default:
		panic("unknown op " + op)
	}
	rt.WaitIdle()
	rt.JoinFinished()
	outs := w.Since(mark)
	if tolerateReread {
		var keep []world.Out
		for _, o := range outs {
			if !(o.Class == "read" && o.Fn == "NodeManagementDetailedDiscoveryData") {
				keep = append(keep, o)
			}
		}
		outs = keep
	}
	var ds []string
	for _, o := range outs {
		ds = append(ds, o.String())
	}
	digest = f[0] + ":" + fmt.Sprint(effect) + ":" + fmt.Sprint(len(outs))
	if !judge {
		if asked {
			return viol, digest, effect
		}
		return nil, digest, effect
	}
	for _, s := range matchOuts(outs, exp) {
		addV(s + " | op=" + op)
	}
	if w.NEvents() >= 0 && rw.w != nil && rw.eventsOn() {
		evs := w.EventsSince(mark)
		for _, k := range []struct {
			t api.EventType
			c api.ElementChangeType
		}{{api.EventTypeSubscriptionChange, api.ElementChangeAdd}, {api.EventTypeSubscriptionChange, api.ElementChangeRemove},
			{api.EventTypeBindingChange, api.ElementChangeAdd}, {api.EventTypeBindingChange, api.ElementChangeRemove},
			{api.EventTypeDataChange, api.ElementChangeUpdate}, {api.EventTypeDeviceChange, api.ElementChangeRemove},
			{api.EventTypeEntityChange, api.ElementChangeAdd}, {api.EventTypeEntityChange, api.ElementChangeRemove}} {
			want := expEv[fmt.Sprint(k.t, k.c)]
			got := evCount(evs, k.t, k.c)
			if got != want {
				addV(fmt.Sprintf("event count differs (type %v change %v) | want=%d got=%d op=%s", k.t, k.c, want, got, op))
			}
		}
	}
	return viol, digest, effect
}

func (rw *regWorld) eventsOn() bool { return rw.evOn }

// fanout: one notify per model subscription on server variant s.
func (rw *regWorld) fanout(s string, partial bool) []expOut {
	var exp []expOut
	for _, e := range rw.m.subs {
		if e.s != s {
			continue
		}
		exp = append(exp, expOut{conn: rw.w.Peers[e.peer].W.Name, class: "notify", src: world.AddrStr(srvAddr(s, true)), dst: world.AddrStr(cliAddr(e.peer, e.c, true)),
			ref: -1, err: -1, fn: "LoadControlLimitListData", data: world.JSON(limitList(rw.m.data[s], 1, 2))})
	}
	return exp
}

func atoi(s string) int {
	n := 0
	fmt.Sscan(s, &n)
	return n
}

func mentionsNested(ops []string) bool {
	for _, o := range ops {
		if strings.Contains(o, "L11") || strings.Contains(o, ":e11") || strings.HasSuffix(o, ":11") {
			return true
		}
	}
	return false
}

// regDriver builds an HDriver over the registry world.
func regDriver(name string, alphabet []string, events, approval bool, extra func(rw *regWorld, op string) []string) *engine.HDriver {
	nested := mentionsNested(alphabet)
	generic := strings.Contains(strings.Join(alphabet, " "), ":L1gen")
	return &engine.HDriver{Name: name, Alphabet: alphabet, Step: func(hist []string, op string) engine.HStep {
		rw := newRegWorldG(events, approval, nested, generic)
		rw.evOn = events
		c08LastWorld = rw
		rt.WaitIdle()
		for _, h := range hist {
			rw.apply(h, false)
		}
		var st engine.HStep
		if op != "" {
			st.Violations, st.Digest, st.Effect = rw.apply(op, true)
		}
		impl, ref := rw.dump()
		// the state key also says which registry entries refer to feature objects that a re-announcement has
		// replaced meanwhile: the statements do not mention it (so it is not compared with the model), but
		// later behaviour may depend on it, and states that differ in it must not be merged
		// (compared with the model with the exact message counters, used as key with the counters replaced by their rank)
		st.Key = pendRe.ReplaceAllStringFunc(impl, func(m string) string {
			return "pend=" + fmt.Sprint(rankCounters(strings.Fields(strings.Trim(strings.TrimPrefix(m, "pend="), "[]"))))
		}) + rw.identityKey()
		if impl != ref {
			st.Violations = append(st.Violations, stateDiff(impl, ref)+" | op="+op)
			st.Cut = true
		}
		if extra != nil && op != "" {
			st.Violations = append(st.Violations, extra(rw, op)...)
		}
		return st
	}}
}

// stateDiff names the first section in which implementation and model differ.
func stateDiff(impl, ref string) string {
	is, rs := strings.Split(impl, "] "), strings.Split(ref, "] ")
	for i := range is {
		if i >= len(rs) || is[i] != rs[i] {
			sec := is[i]
			if j := strings.Index(sec, "="); j > 0 {
				sec = sec[:j]
			}
			r := ""
			if i < len(rs) {
				r = rs[i]
			}
			return fmt.Sprintf("state differs from the reference model in section %q | impl: %s] model: %s]", sec, is[i], r)
		}
	}
	return "state differs from the reference model | impl: " + impl + " model: " + ref
}

// deliverOnly builds and delivers the datagram of a message operation without
// touching the reference model (used by threads of schedule scenarios).
func (rw *regWorld) deliverOnly(op string) { rw.prepare(op)() }

// prepare builds the message of an operation now (the peer's message counter advances in the
// calling thread) and returns the step that hands it to the stack.
func (rw *regWorld) prepare(op string) func() {
	w := rw.w
	f := strings.Split(op, ":")
	switch f[0] {
	case "sub", "bind":
		p, c, s, t, withDev := f[1], f[2], f[3], typeVars[f[4]], f[5] == "d"
		pe := w.Peers[p]
		var d model.DatagramType
		if f[0] == "bind" {
			d = pe.BindCall(cliAddr(p, c, withDev), srvAddr(s, withDev), t)
		} else {
			d = pe.SubscribeCall(cliAddr(p, c, withDev), srvAddr(s, withDev), t)
		}
		return func() { pe.Deliver(d) }
	case "unsub", "unbind":
		p, c, s, withDev := f[1], f[2], f[3], f[4] != "n"
		pe := w.Peers[p]
		var d model.DatagramType
		if f[0] == "unbind" {
			d = pe.UnbindCall(cliAddrMode(p, c, f[4]), srvAddr(s, withDev))
		} else {
			d = pe.UnsubscribeCall(cliAddrMode(p, c, f[4]), srvAddr(s, withDev))
		}
		return func() { pe.Deliver(d) }
	case "write":
		p, c, s, ack, v := f[1], f[2], f[3], f[5] == "ack", atoi(f[6])
		pe := w.Peers[p]
		srcA := cliAddr(p, c, true)
		if len(f) > 7 {
			srcA = cliAddrMode(p, c, f[7])
		}
		d := pe.Datagram(srcA, srvAddr(s, true), model.CmdClassifierTypeWrite, ack, nil, model.CmdType{LoadControlLimitListData: limitList(v, 1, 2)})
		return func() { pe.Deliver(d) }
	case "set":
		fl, data := rw.local(f[1]), limitList(atoi(f[2]), 1, 2)
		return func() { fl.SetData(fnLimit, data) }
	case "entrm", "entadd":
		p, e := f[1], uint(atoi(f[2]))
		pe := w.Peers[p]
		st := model.NetworkManagementStateChangeTypeRemoved
		ents := []world.EntSpec{{Addr: entAddr(e), Type: model.EntityTypeTypeCEM}}
		if f[0] == "entadd" {
			// (also for an entity that is known: it is announced again, its feature objects are replaced)
			st = model.NetworkManagementStateChangeTypeAdded
			ents = []world.EntSpec{clientEntity(entAddr(e))}
		}
		cmd := model.CmdType{
			Function:                            util.Ptr(model.FunctionTypeNodeManagementDetailedDiscoveryData),
			Filter:                              []model.FilterType{*model.NewFilterTypePartial()},
			NodeManagementDetailedDiscoveryData: pe.DiscoveryData(ents, false, &st),
		}
		d := pe.Datagram(pe.NM(), world.LocalNM(), model.CmdClassifierTypeNotify, false, nil, cmd)
		return func() { pe.Deliver(d) }
	case "disc":
		return func() { w.L.RemoveRemoteDeviceConnection(f[1]) }
	case "read":
		// read of the limit list: read:<peer>:<client>:<server>
		p, c, sv := f[1], f[2], f[3]
		pe := w.Peers[p]
		d := pe.Datagram(cliAddr(p, c, true), srvAddr(sv, true), model.CmdClassifierTypeRead, false, nil, model.CmdType{LoadControlLimitListData: &model.LoadControlLimitListDataType{}})
		return func() { pe.Deliver(d) }
	case "lupd":
		// local partial update of one item: lupd:<server>:<id>:<value>:<t|f|n changeability>
		fl := rw.local(f[1])
		it := model.LoadControlLimitDataType{LimitId: util.Ptr(model.LoadControlLimitIdType(atoi(f[2]))), Value: model.NewScaledNumberType(float64(1000 * atoi(f[3])))}
		if f[4] != "n" {
			it.IsLimitChangeable = util.Ptr(f[4] == "t")
		}
		data := &model.LoadControlLimitListDataType{LoadControlLimitData: []model.LoadControlLimitDataType{it}}
		return func() { fl.UpdateData(fnLimit, data, model.NewFilterTypePartial(), nil) }
	case "ldel":
		// local delete of one item: ldel:<server>:<id>
		fl := rw.local(f[1])
		fd := &model.FilterType{CmdControl: &model.CmdControlType{Delete: &model.ElementTagType{}},
			LoadControlLimitListDataSelectors: &model.LoadControlLimitListDataSelectorsType{LimitId: util.Ptr(model.LoadControlLimitIdType(atoi(f[2])))}}
		return func() { fl.UpdateData(fnLimit, &model.LoadControlLimitListDataType{}, nil, fd) }
	case "pwrite":
		// partial remote write of one item's value: pwrite:<peer>:<client>:<server>:<id>:<value>
		p, c, sv := f[1], f[2], f[3]
		pe := w.Peers[p]
		data := &model.LoadControlLimitListDataType{LoadControlLimitData: []model.LoadControlLimitDataType{
			{LimitId: util.Ptr(model.LoadControlLimitIdType(atoi(f[4]))), Value: model.NewScaledNumberType(float64(1000 * atoi(f[5])))}}}
		d := pe.Datagram(cliAddr(p, c, true), srvAddr(sv, true), model.CmdClassifierTypeWrite, true, nil,
			model.CmdType{Function: util.Ptr(fnLimit), Filter: []model.FilterType{*model.NewFilterTypePartial()}, LoadControlLimitListData: data})
		return func() { pe.Deliver(d) }
	default:
		panic("prepare: unsupported op " + op)
	}
}
