package checks

import (
	"fmt"
	"sort"
	"strings"

	rt "github.com/enbility/spine-go/internal/verifrt"

	"github.com/enbility/spine-go/api"
	"github.com/enbility/spine-go/internal/verifh/engine"
	"github.com/enbility/spine-go/internal/verifh/world"
	"github.com/enbility/spine-go/model"
	"github.com/enbility/spine-go/spine"
	"github.com/enbility/spine-go/util"
)

// C07 — the local device tree is announced faithfully and addressed uniquely.

type ltFeat struct {
	num  uint
	typ  string
	role string
	desc string
	fns  map[string]string // function -> "r" | "rw" | "-"
}

type ltEnt struct {
	attached bool
	next     uint
	feats    []*ltFeat
}

type ltWorld struct {
	w    *world.World
	ents map[string]*spine.EntityLocal
	m    map[string]*ltEnt
}

var ltTypes = map[string]model.FeatureTypeType{"lc": model.FeatureTypeTypeLoadControl, "ms": model.FeatureTypeTypeMeasurement, "ec": model.FeatureTypeTypeElectricalConnection}
var ltRoles = map[string]model.RoleType{"s": model.RoleTypeServer, "c": model.RoleTypeClient}
var ltFns = map[string]model.FunctionType{"limit": fnLimit, "limitdesc": fnLimitDesc, "meas": fnMeas, "measdesc": model.FunctionTypeMeasurementDescriptionListData,
	"ecdesc": model.FunctionTypeElectricalConnectionDescriptionListData}

// ltAddr: "e1b" is a second entity object with the address of "e1" (an entity that is replaced by a new object)
func ltAddr(k string) []uint {
	if k == "e1b" {
		return ucEnts["e1"]
	}
	return ucEnts[k]
}

var ltEntKeys = []string{"e1", "e11", "e1b", "e2"}

func newLTWorld() *ltWorld {
	l := &ltWorld{w: world.New(false), ents: map[string]*spine.EntityLocal{}, m: map[string]*ltEnt{}}
	for _, k := range ltEntKeys {
		l.ents[k] = spine.NewEntityLocal(l.w.L, model.EntityTypeTypeCEM, spine.NewAddressEntityType(ltAddr(k)), 0)
		l.m[k] = &ltEnt{next: 1}
	}
	a := l.w.ConnectAndAnnounce("A", "dA", []world.EntSpec{clientEntity([]uint{1})})
	l.w.ConnectAndAnnounce("B", "dB", []world.EntSpec{clientEntity([]uint{1})})
	a.Deliver(a.SubscribeCall(a.NM(), world.LocalNM(), model.FeatureTypeTypeNodeManagement))
	return l
}

func descFor(t model.FeatureTypeType, role string) string {
	if role == "s" {
		return string(t) + " Server"
	}
	return string(t) + " Client"
}

func (l *ltWorld) find(e, t, r string) *ltFeat {
	for _, f := range l.m[e].feats {
		if f.typ == t && f.role == r {
			return f
		}
	}
	return nil
}

// expected announcement of one entity's features (sorted)
func (l *ltWorld) refFeatures(e string) []string {
	var out []string
	for _, f := range l.m[e].feats {
		var fns []string
		for k, v := range f.fns {
			fns = append(fns, string(ltFns[k])+"="+v)
		}
		sort.Strings(fns)
		out = append(out, fmt.Sprintf("%v/%d %s %s %q %v", ltAddr(e), f.num, ltTypes[f.typ], ltRoles[f.role], f.desc, fns))
	}
	sort.Strings(out)
	return out
}

func featInfoStr(fi model.NodeManagementDetailedDiscoveryFeatureInformationType) string {
	d := fi.Description
	if d == nil || d.FeatureAddress == nil || d.FeatureAddress.Feature == nil || d.FeatureType == nil || d.Role == nil {
		return "malformed feature information"
	}
	var fns []string
	for _, sf := range d.SupportedFunction {
		ops := "-"
		if sf.PossibleOperations != nil {
			switch {
			case sf.PossibleOperations.Read != nil && sf.PossibleOperations.Write != nil:
				ops = "rw"
			case sf.PossibleOperations.Read != nil:
				ops = "r"
			case sf.PossibleOperations.Write != nil:
				ops = "w"
			}
		}
		fn := "?"
		if sf.Function != nil {
			fn = string(*sf.Function)
		}
		fns = append(fns, fn+"="+ops)
	}
	sort.Strings(fns)
	desc := ""
	if d.Description != nil {
		desc = string(*d.Description)
	}
	dev := ""
	if d.FeatureAddress.Device != nil {
		dev = string(*d.FeatureAddress.Device)
	}
	if dev != world.LocalAddr {
		return "feature address without the local device address"
	}
	return fmt.Sprintf("%v/%d %s %s %q %v", d.FeatureAddress.Entity, uint(*d.FeatureAddress.Feature), *d.FeatureType, *d.Role, desc, fns)
}

// readTree: discovery read from peer p; returns entity list and feature list of entities [1],[2],[1,1]
func (l *ltWorld) readTree(p string) (ents []string, feats []string, viol []string) {
	pe := l.w.Peers[p]
	m := l.w.Mark()
	d := pe.Datagram(pe.NM(), world.LocalNM(), model.CmdClassifierTypeRead, false, nil, model.CmdType{NodeManagementDetailedDiscoveryData: &model.NodeManagementDetailedDiscoveryDataType{}})
	pe.Deliver(d)
	rt.WaitIdle()
	n := 0
	for _, o := range l.w.Since(m) {
		if o.Class != "reply" || o.Conn != p || o.Cmd.NodeManagementDetailedDiscoveryData == nil {
			viol = append(viol, "unexpected datagram after a discovery read | "+o.String())
			continue
		}
		n++
		dd := o.Cmd.NodeManagementDetailedDiscoveryData
		root := false
		for _, ei := range dd.EntityInformation {
			if ei.Description == nil || ei.Description.EntityAddress == nil || ei.Description.EntityType == nil {
				viol = append(viol, "malformed entity information in the discovery reply")
				continue
			}
			a := fmt.Sprint(ei.Description.EntityAddress.Entity)
			if a == "[0]" {
				root = true
				continue
			}
			ents = append(ents, a+" "+string(*ei.Description.EntityType))
		}
		if !root {
			viol = append(viol, "the discovery reply does not list entity [0]")
		}
		for _, fi := range dd.FeatureInformation {
			s := featInfoStr(fi)
			if strings.HasPrefix(s, "[0]/") {
				continue
			}
			feats = append(feats, s)
			// every announced address resolves back to that feature
			if fi.Description != nil && fi.Description.FeatureAddress != nil {
				f := l.w.L.FeatureByAddress(fi.Description.FeatureAddress)
				if f == nil || fi.Description.FeatureType == nil || f.Type() != *fi.Description.FeatureType || fi.Description.Role == nil || f.Role() != *fi.Description.Role {
					viol = append(viol, "an announced feature address does not resolve back to that feature | "+s)
				}
			}
		}
	}
	if n != 1 {
		viol = append(viol, fmt.Sprintf("a discovery read was answered with %d replies", n))
	}
	sort.Strings(ents)
	sort.Strings(feats)
	return
}

// readTreeNoWait is readTree for a scenario thread (no quiescence wait; the reply is written synchronously).
func (l *ltWorld) readTreeNoWait(p string) (ents []string, feats []string, viol []string) {
	pe := l.w.Peers[p]
	before := pe.W.Len()
	d := pe.Datagram(pe.NM(), world.LocalNM(), model.CmdClassifierTypeRead, false, nil, model.CmdType{NodeManagementDetailedDiscoveryData: &model.NodeManagementDetailedDiscoveryDataType{}})
	pe.Deliver(d)
	n := 0
	for _, dg := range pe.W.Datagrams(before) {
		o := world.Canon(p, dg)
		if o.Class != "reply" || o.Cmd.NodeManagementDetailedDiscoveryData == nil {
			continue
		}
		n++
		for _, ei := range o.Cmd.NodeManagementDetailedDiscoveryData.EntityInformation {
			if ei.Description == nil || ei.Description.EntityAddress == nil || ei.Description.EntityType == nil {
				viol = append(viol, "malformed entity information in the discovery reply")
				continue
			}
			if a := fmt.Sprint(ei.Description.EntityAddress.Entity); a != "[0]" {
				ents = append(ents, a+" "+string(*ei.Description.EntityType))
			}
		}
		for _, fi := range o.Cmd.NodeManagementDetailedDiscoveryData.FeatureInformation {
			if s := featInfoStr(fi); !strings.HasPrefix(s, "[0]/") {
				feats = append(feats, s)
			}
		}
	}
	if n != 1 {
		viol = append(viol, fmt.Sprintf("a discovery read was answered with %d replies", n))
	}
	sort.Strings(ents)
	sort.Strings(feats)
	return
}

func (l *ltWorld) apply(op string, judge bool) (viol []string, digest string, effect bool) {
	f := strings.Split(op, ":")
	e := f[1]
	ent, me := l.ents[e], l.m[e]
	mark := l.w.Mark()
	var wantNotify string // "added" | "removed" | ""
	staleRemoval := false
	switch f[0] {
	case "addent":
		l.w.L.AddEntity(ent)
		me.attached = true
		wantNotify = "added"
		effect = true
	case "rment":
		l.w.L.RemoveEntity(ent)
		me.attached = false
		wantNotify = "removed"
		effect = true
	case "rmstale":
		// a late / duplicate RemoveEntity with the handle of an entity that is not attached (any more), possibly while
		// another object is attached under the same address. What it announces is left open; the tree must stay what it is.
		l.w.L.RemoveEntity(ent)
		staleRemoval = true
	case "feat":
		t, r := f[2], f[3]
		got := ent.GetOrAddFeature(ltTypes[t], ltRoles[r])
		mf := l.find(e, t, r)
		if mf == nil {
			mf = &ltFeat{num: me.next, typ: t, role: r, desc: descFor(ltTypes[t], r), fns: map[string]string{}}
			me.next++
			me.feats = append(me.feats, mf)
			effect = true
		}
		if judge && (got == nil || got.Address().Feature == nil || uint(*got.Address().Feature) != mf.num || got.Type() != ltTypes[t] || got.Role() != ltRoles[r]) {
			viol = append(viol, fmt.Sprintf("GetOrAddFeature returned another feature than expected | op=%s want number %d", op, mf.num))
		}
	case "dupfeat":
		t, r := f[2], f[3]
		// a second feature object of an existing type and role must be ignored (a feature id is consumed)
		nf := spine.NewFeatureLocal(ent.NextFeatureId(), ent, ltTypes[t], ltRoles[r])
		me.next++
		ent.AddFeature(nf)
		if l.find(e, t, r) == nil {
			me.feats = append(me.feats, &ltFeat{num: me.next - 1, typ: t, role: r, desc: "", fns: map[string]string{}})
			effect = true
		}
	case "desc":
		// the description of a feature is changed after the feature was created (and possibly announced)
		t, r, d := f[2], f[3], f[4]
		mf := l.find(e, t, r)
		if mf == nil {
			break
		}
		fl := ent.FeatureOfTypeAndRole(ltTypes[t], ltRoles[r])
		if fl == nil {
			break
		}
		fl.SetDescriptionString(d)
		if mf.desc != d {
			mf.desc = d
			effect = true
		}
	case "fn":
		t, r, fn, rw := f[2], f[3], f[4], f[5]
		mf := l.find(e, t, r)
		if mf == nil {
			break
		}
		var fl api.FeatureLocalInterface = ent.FeatureOfTypeAndRole(ltTypes[t], ltRoles[r])
		fl.AddFunctionType(ltFns[fn], strings.Contains(rw, "r"), strings.Contains(rw, "w"))
		if r == "s" {
			if _, ok := mf.fns[fn]; !ok {
				mf.fns[fn] = rw
				effect = true
			}
		}
	}
	rt.WaitIdle()
	digest = f[0] + fmt.Sprint(effect)
	if !judge {
		return nil, digest, effect
	}
	// notifications to node-management subscribers
	outs := l.w.Since(mark)
	nA := 0
	for _, o := range outs {
		if o.Conn == "B" {
			viol = append(viol, "a peer that is not subscribed to node management was notified | "+o.String())
			continue
		}
		if staleRemoval {
			continue
		}
		if o.Class != "notify" || o.Cmd.NodeManagementDetailedDiscoveryData == nil {
			viol = append(viol, "unexpected datagram | "+o.String())
			continue
		}
		nA++
		dd := o.Cmd.NodeManagementDetailedDiscoveryData
		if o.Filter != "partial" || len(dd.EntityInformation) != 1 || dd.EntityInformation[0].Description == nil ||
			dd.EntityInformation[0].Description.LastStateChange == nil || string(*dd.EntityInformation[0].Description.LastStateChange) != wantNotify ||
			fmt.Sprint(dd.EntityInformation[0].Description.EntityAddress.Entity) != fmt.Sprint(ltAddr(e)) {
			viol = append(viol, fmt.Sprintf("the notification does not describe exactly this entity as %s | op=%s %s", wantNotify, op, o))
			continue
		}
		var fs []string
		for _, fi := range dd.FeatureInformation {
			fs = append(fs, featInfoStr(fi))
		}
		sort.Strings(fs)
		want := l.refFeatures(e)
		if wantNotify == "removed" {
			want = nil
		}
		if strings.Join(fs, ";") != strings.Join(want, ";") {
			viol = append(viol, fmt.Sprintf("the notification of an added entity does not list its features | op=%s\n want=%v\n got=%v", op, want, fs))
		}
	}
	wantN := 0
	if wantNotify != "" {
		wantN = 1
	}
	if nA != wantN && !staleRemoval {
		viol = append(viol, fmt.Sprintf("a node-management subscriber received %d notifications, expected %d | op=%s", nA, wantN, op))
	}
	// the announcement read by a subscribed and by an unsubscribed peer
	for _, p := range []string{"A", "B"} {
		ents, feats, v := l.readTree(p)
		viol = append(viol, v...)
		var wantE, wantF []string
		for _, k := range ltEntKeys {
			if l.m[k].attached {
				wantE = append(wantE, fmt.Sprint(ltAddr(k))+" "+string(model.EntityTypeTypeCEM))
				wantF = append(wantF, l.refFeatures(k)...)
			}
		}
		sort.Strings(wantE)
		sort.Strings(wantF)
		if strings.Join(ents, ";") != strings.Join(wantE, ";") {
			viol = append(viol, fmt.Sprintf("the discovery reply lists other entities than the current ones | op=%s peer=%s\n want=%v\n got=%v", op, p, wantE, ents))
		}
		if strings.Join(feats, ";") != strings.Join(wantF, ";") {
			viol = append(viol, fmt.Sprintf("the discovery reply lists other features or operations than the current ones | op=%s peer=%s\n want=%v\n got=%v", op, p, wantF, feats))
		}
	}
	// every announced entity address resolves to that entity
	for _, k := range ltEntKeys {
		if l.m[k].attached && l.w.L.Entity(spine.NewAddressEntityType(ltAddr(k))) != api.EntityLocalInterface(l.ents[k]) {
			viol = append(viol, fmt.Sprintf("the address of an attached entity does not resolve to that entity | entity=%s op=%s", k, op))
		}
	}
	// feature numbers never repeat within an entity
	for k, ent := range l.ents {
		seen := map[uint]bool{}
		for _, ft := range ent.Features() {
			n := uint(*ft.Address().Feature)
			if seen[n] {
				viol = append(viol, fmt.Sprintf("two features of one entity share a feature number | entity=%s number=%d", k, n))
			}
			seen[n] = true
		}
	}
	return
}

func (l *ltWorld) key() string {
	var parts []string
	for _, k := range ltEntKeys {
		var fs []string
		for _, ft := range l.ents[k].Features() {
			var fns []string
			for fn, o := range ft.Operations() {
				fns = append(fns, string(fn)+"="+o.String())
			}
			sort.Strings(fns)
			d := ""
			if ft.Description() != nil {
				d = string(*ft.Description())
			}
			fs = append(fs, fmt.Sprintf("%d:%s:%s:%q:%v", uint(*ft.Address().Feature), ft.Type(), ft.Role(), d, fns))
		}
		sort.Strings(fs)
		att := l.w.L.Entity(spine.NewAddressEntityType(ltAddr(k))) == api.EntityLocalInterface(l.ents[k])
		parts = append(parts, fmt.Sprintf("%s(att=%v next=%d)%v", k, att, l.m[k].next, fs))
	}
	return strings.Join(parts, " ")
}

func c07Alphabet(thorough bool) []string {
	var a []string
	ents := []string{"e1", "e2"}
	if thorough {
		ents = append(ents, "e11")
	}
	for _, e := range ents {
		a = append(a, "addent:"+e, "rment:"+e, "feat:"+e+":lc:s", "feat:"+e+":lc:c", "feat:"+e+":ms:s")
	}
	a = append(a, "feat:e1:ms:c", "feat:e1:ec:s", "dupfeat:e1:lc:s", "dupfeat:e1:ec:c",
		"fn:e1:lc:s:limit:rw", "fn:e1:lc:s:limit:r", "fn:e1:lc:s:limitdesc:r", "fn:e1:ms:s:meas:r", "fn:e1:lc:c:limit:rw", "fn:e2:lc:s:limit:r",
		// every combination of the two flags: write-only and neither
		"fn:e1:lc:s:limitdesc:w", "fn:e1:ms:s:meas:-",
		// descriptions changed after creation / announcement
		"desc:e1:lc:s:changed", "desc:e1:lc:s:again", "desc:e2:lc:s:changed")
	if thorough {
		a = append(a, "feat:e1:ec:c", "fn:e1:ms:s:measdesc:r", "fn:e1:ec:s:ecdesc:r", "fn:e2:ms:s:meas:rw", "feat:e11:ec:s")
	}
	return a
}

func c07Drivers(thorough bool) []*engine.HDriver {
	alpha := c07Alphabet(thorough)
	return []*engine.HDriver{{Name: "local-tree", Alphabet: alpha,
		Ops: func(hist []string) []string {
			att := map[string]bool{}
			for _, h := range hist {
				f := strings.Split(h, ":")
				if f[0] == "addent" {
					att[f[1]] = true
				}
				if f[0] == "rment" {
					att[f[1]] = false
				}
			}
			var out []string
			for _, a := range alpha {
				f := strings.Split(a, ":")
				if (f[0] == "addent" && att[f[1]]) || (f[0] == "rment" && !att[f[1]]) {
					continue // adding an attached / removing a detached entity is left open by the statement
				}
				out = append(out, a)
			}
			return out
		},
		Step: func(hist []string, op string) engine.HStep {
			l := newLTWorld()
			rt.WaitIdle()
			for _, h := range hist {
				l.apply(h, false)
			}
			var st engine.HStep
			if op != "" {
				st.Violations, st.Digest, st.Effect = l.apply(op, true)
			}
			st.Key = l.key()
			return st
		}}, c07ReplacedDriver()}
}

// c07ReplacedDriver: an entity is given up and a NEW object is attached under the same address (a vehicle is unplugged
// and another one plugged in); the application may still hold the old handle and remove it once more.
func c07ReplacedDriver() *engine.HDriver {
	alpha := []string{"addent:e1", "rment:e1", "addent:e1b", "rment:e1b", "rmstale:e1", "rmstale:e1b",
		"feat:e1:lc:s", "feat:e1b:lc:s", "feat:e1b:ms:s", "fn:e1b:lc:s:limit:rw", "addent:e2", "rment:e2"}
	return &engine.HDriver{Name: "replaced-entity", Alphabet: alpha,
		Ops: func(hist []string) []string {
			att := map[string]bool{}
			for _, h := range hist {
				f := strings.Split(h, ":")
				if f[0] == "addent" {
					att[f[1]] = true
				}
				if f[0] == "rment" {
					att[f[1]] = false
				}
			}
			other := map[string]string{"e1": "e1b", "e1b": "e1"}
			var out []string
			for _, a := range alpha {
				f := strings.Split(a, ":")
				switch f[0] {
				case "addent":
					// two objects attached under one address at the same time are left open by the statement
					if att[f[1]] || (other[f[1]] != "" && att[other[f[1]]]) {
						continue
					}
				case "rment":
					if !att[f[1]] {
						continue
					}
				case "rmstale":
					// (also with the handle of an entity that never was attached: what is offered must depend on the state only)
					if att[f[1]] {
						continue
					}
				}
				out = append(out, a)
			}
			return out
		},
		Step: func(hist []string, op string) engine.HStep {
			l := newLTWorld()
			rt.WaitIdle()
			for _, h := range hist {
				l.apply(h, false)
			}
			var st engine.HStep
			if op != "" {
				st.Violations, st.Digest, st.Effect = l.apply(op, true)
			}
			st.Key = l.key()
			return st
		}}
}

func c07Scenarios() []*engine.SScenario {
	mk := func(name string, reqs [][2]string) *engine.SScenario {
		return &engine.SScenario{Name: name, Run: func(cfg rt.Config) rt.Outcome {
			var viol []string
			var dig string
			res := rt.Execute(cfg, func() {
				w := world.New(false)
				e := w.AddLocalEntity([]uint{1}, model.EntityTypeTypeCEM, 0)
				got := make([]api.FeatureLocalInterface, len(reqs))
				rt.BeginExplore()
				for i, r := range reqs {
					i, r := i, r
					rt.Go(func() { got[i] = e.GetOrAddFeature(ltTypes[r[0]], ltRoles[r[1]]) })
				}
				rt.WaitIdle()
				rt.JoinFinished()
				for i := range reqs {
					for j := range reqs {
						if i < j && reqs[i] == reqs[j] && got[i] != got[j] {
							viol = append(viol, "two callers asking for the feature of one type and role got different features")
						}
					}
				}
				seenNum := map[uint]bool{}
				perTR := map[string]int{}
				var nums []string
				for _, f := range e.Features() {
					n := uint(*f.Address().Feature)
					if seenNum[n] {
						viol = append(viol, fmt.Sprintf("two features of one entity share a feature number | number=%d", n))
					}
					seenNum[n] = true
					perTR[string(f.Type())+"/"+string(f.Role())]++
					nums = append(nums, fmt.Sprintf("%d:%s/%s", n, f.Type(), f.Role()))
				}
				for k, n := range perTR {
					if n > 1 {
						viol = append(viol, fmt.Sprintf("the entity holds %d features of one type and role | %s", n, k))
					}
				}
				for i, g := range got {
					if g == nil || e.FeatureOfAddress(g.Address().Feature) != g {
						viol = append(viol, fmt.Sprintf("a returned feature does not resolve by its address | caller=%d", i))
					}
				}
				sort.Strings(nums)
				dig = strings.Join(nums, ",")
			})
			return rt.Outcome{Res: res, Violations: append(viol, panicsAndDeadlocks(res)...), Digest: dig}
		}}
	}
	// a discovery read overlapping an entity removal / addition must announce the tree before or after it
	readVs := func(name string, change func(l *ltWorld)) *engine.SScenario {
		return &engine.SScenario{Name: name, Run: func(cfg rt.Config) rt.Outcome {
			var viol []string
			var dig string
			res := rt.Execute(cfg, func() {
				l := newLTWorld()
				rt.WaitIdle()
				for _, op := range []string{"feat:e1:lc:s", "feat:e11:ms:s", "feat:e2:lc:c", "addent:e1", "addent:e11"} {
					l.apply(op, false)
				}
				if !strings.Contains(name, "AddEntity") {
					l.apply("addent:e2", false)
				}
				render := func() string {
					ents, feats, _ := l.readTree("A")
					return strings.Join(ents, ";") + " | " + strings.Join(feats, ";")
				}
				before := render()
				var got string
				var rv []string
				rt.BeginExplore()
				rt.Go(func() {
					ents, feats, v := l.readTreeNoWait("B")
					got, rv = strings.Join(ents, ";")+" | "+strings.Join(feats, ";"), v
				})
				rt.Go(func() { change(l) })
				rt.WaitIdle()
				rt.JoinFinished()
				after := render()
				viol = append(viol, rv...)
				if got != before && got != after {
					viol = append(viol, fmt.Sprintf("a discovery read overlapping an entity change announces a tree that existed neither before nor after it | got=%s\n before=%s\n after=%s", got, before, after))
				}
				dig = fmt.Sprint(got == before, got == after)
			})
			return rt.Outcome{Res: res, Violations: append(viol, panicsAndDeadlocks(res)...), Digest: dig}
		}}
	}
	// an entity is added / removed while the subscribed peer's own announcement (a repeated discovery reply, a
	// re-announcement of one of its entities) is being processed on its connection: the peer is subscribed
	// throughout and gets exactly one notification describing the entity
	notifyVs := func(name string, add bool, peerMsg func(l *ltWorld) model.DatagramType) *engine.SScenario {
		return &engine.SScenario{Name: name, Run: func(cfg rt.Config) rt.Outcome {
			var viol []string
			var dig string
			res := rt.Execute(cfg, func() {
				l := newLTWorld()
				rt.WaitIdle()
				for _, op := range []string{"feat:e1:lc:s", "feat:e2:lc:c", "addent:e1"} {
					l.apply(op, false)
				}
				if !add {
					l.apply("addent:e2", false)
				}
				a := l.w.Peers["A"]
				d := peerMsg(l)
				mark := l.w.Mark()
				rt.BeginExplore()
				rt.Go(func() { a.Deliver(d) })
				rt.Go(func() {
					if add {
						l.w.L.AddEntity(l.ents["e2"])
					} else {
						l.w.L.RemoveEntity(l.ents["e2"])
					}
				})
				rt.WaitIdle()
				rt.JoinFinished()
				n := 0
				for _, o := range l.w.Since(mark) {
					if o.Conn == "A" && o.Class == "notify" && o.Cmd.NodeManagementDetailedDiscoveryData != nil {
						n++
					}
					if o.Conn == "B" && o.Class == "notify" {
						viol = append(viol, "a peer that is not subscribed to node management was notified | "+o.String())
					}
				}
				if n != 1 {
					viol = append(viol, fmt.Sprintf("a peer subscribed to node management did not get exactly one notification for an entity change | notifications=%d", n))
				}
				dig = fmt.Sprint(n)
			})
			return rt.Outcome{Res: res, Violations: append(viol, panicsAndDeadlocks(res)...), Digest: dig}
		}}
	}
	reply := func(l *ltWorld) model.DatagramType {
		a := l.w.Peers["A"]
		return a.DiscoveryReply([]world.EntSpec{clientEntity([]uint{1})})
	}
	reannounce := func(l *ltWorld) model.DatagramType {
		a := l.w.Peers["A"]
		st := model.NetworkManagementStateChangeTypeAdded
		cmd := model.CmdType{Function: util.Ptr(model.FunctionTypeNodeManagementDetailedDiscoveryData), Filter: []model.FilterType{*model.NewFilterTypePartial()},
			NodeManagementDetailedDiscoveryData: a.DiscoveryData([]world.EntSpec{clientEntity([]uint{1})}, false, &st)}
		return a.Datagram(a.NM(), world.LocalNM(), model.CmdClassifierTypeNotify, false, nil, cmd)
	}
	// features built by hand: the number is drawn with NextFeatureId, then the feature is added; a third caller uses GetOrAddFeature
	manual := &engine.SScenario{Name: "NextFeatureId + AddFeature from two callers | GetOrAddFeature", Run: func(cfg rt.Config) rt.Outcome {
		var viol []string
		var dig string
		res := rt.Execute(cfg, func() {
			w := world.New(false)
			e := w.AddLocalEntity([]uint{1}, model.EntityTypeTypeCEM, 0)
			ids := make([]uint, 3)
			rt.BeginExplore()
			for i, t := range []string{"lc", "ms"} {
				i, t := i, t
				rt.Go(func() {
					id := e.NextFeatureId()
					ids[i] = id
					e.AddFeature(spine.NewFeatureLocal(id, e, ltTypes[t], model.RoleTypeServer))
				})
			}
			rt.Go(func() { ids[2] = uint(*e.GetOrAddFeature(ltTypes["ec"], model.RoleTypeClient).Address().Feature) })
			rt.WaitIdle()
			rt.JoinFinished()
			if ids[0] == ids[1] || ids[0] == ids[2] || ids[1] == ids[2] {
				viol = append(viol, fmt.Sprintf("a feature number was handed out twice | numbers=%v", ids))
			}
			seen := map[uint]bool{}
			for _, f := range e.Features() {
				n := uint(*f.Address().Feature)
				if seen[n] || e.FeatureOfAddress(f.Address().Feature) != f {
					viol = append(viol, fmt.Sprintf("two features of one entity share a feature number | number=%d", n))
				}
				seen[n] = true
			}
			if len(e.Features()) != 3 {
				viol = append(viol, fmt.Sprintf("features added concurrently are missing | features=%d", len(e.Features())))
			}
			dig = fmt.Sprint(len(seen))
		})
		return rt.Outcome{Res: res, Violations: append(viol, panicsAndDeadlocks(res)...), Digest: dig}
	}}
	return []*engine.SScenario{
		manual,
		readVs("discovery read | RemoveEntity of a middle entity", func(l *ltWorld) { l.w.L.RemoveEntity(l.ents["e11"]) }),
		readVs("discovery read | RemoveEntity of the first entity", func(l *ltWorld) { l.w.L.RemoveEntity(l.ents["e1"]) }),
		readVs("discovery read | AddEntity", func(l *ltWorld) { l.w.L.AddEntity(l.ents["e2"]) }),
		notifyVs("the subscriber's repeated discovery reply | AddEntity", true, reply),
		notifyVs("the subscriber's repeated discovery reply | RemoveEntity", false, reply),
		notifyVs("the subscriber re-announces an entity | AddEntity", true, reannounce),
		mk("two callers, same type and role", [][2]string{{"lc", "s"}, {"lc", "s"}}),
		mk("three callers, same type and role", [][2]string{{"lc", "s"}, {"lc", "s"}, {"lc", "s"}}),
		mk("three callers, two types", [][2]string{{"lc", "s"}, {"ms", "s"}, {"lc", "s"}}),
		mk("three callers, different types and roles", [][2]string{{"lc", "s"}, {"ms", "s"}, {"lc", "c"}}),
	}
}

func init() {
	engine.Register(&engine.Check{
		ID:        "C07",
		NeedsRace: true,
		Drivers:   func(c *engine.Ctx) []*engine.HDriver { return c07Drivers(c.Thorough) },
		Scenarios: func(c *engine.Ctx) []*engine.SScenario { return c07Scenarios() },
		Run: func(c *engine.Ctx) *engine.Report {
			rep := &engine.Report{Level: "model_checking", Coverage: map[string]any{}}
			for _, d := range c07Drivers(c.Thorough) {
				depth := 3
				if c.Thorough {
					depth = 5
				}
				if d.Name == "replaced-entity" {
					depth += 2
				}
				st := engine.RunHistories(c, d, depth, rep)
				engine.AddHCoverage(rep, d.Name, st, len(d.Alphabet))
			}
			mergeS(c, rep, c07Scenarios(), engine.SPlan{Bounds: boundsFor(c, []int{0, 1, 2, -1}, []int{0, 1, 2, 3, -1}), Race: true, RaceMaxBound: 2,
				RaceFuncs: []string{"GetOrAddFeature", "NextFeatureId", "AddFeature", "FeatureOfTypeAndRole"}})
			return rep
		},
	})
}
