// Package checks contains one driver per property.
package checks

import (
	"fmt"
	"github.com/enbility/spine-go/internal/verifh/engine"
	"sort"
	"strings"

	rt "github.com/enbility/spine-go/internal/verifrt"

	"github.com/enbility/spine-go/internal/verifh/world"
	"github.com/enbility/spine-go/model"
)

var (
	fnLimit     = model.FunctionTypeLoadControlLimitListData
	fnLimitDesc = model.FunctionTypeLoadControlLimitDescriptionListData
	fnMeas      = model.FunctionTypeMeasurementListData
)

// clientEntity is what peers announce: identical numbers on every peer.
func clientEntity(addr []uint) world.EntSpec {
	return world.EntSpec{Addr: addr, Type: model.EntityTypeTypeCEM, Desc: "peer entity", Feats: []world.FeatSpec{
		{Num: 1, Type: model.FeatureTypeTypeLoadControl, Role: model.RoleTypeClient, Desc: "lc client"},
		{Num: 2, Type: model.FeatureTypeTypeLoadControl, Role: model.RoleTypeClient, Desc: "lc client 2"},
		{Num: 3, Type: model.FeatureTypeTypeMeasurement, Role: model.RoleTypeClient, Desc: "meas client"},
		{Num: 4, Type: model.FeatureTypeTypeLoadControl, Role: model.RoleTypeServer, Desc: "lc server", Funcs: []world.FuncSpec{{Fn: fnLimit, R: true, W: true}, {Fn: fnLimitDesc, R: true}}},
		{Num: 5, Type: model.FeatureTypeTypeMeasurement, Role: model.RoleTypeServer, Desc: "meas server", Funcs: []world.FuncSpec{{Fn: fnMeas, R: true}}},
	}}
}

// stdLocal adds entity [1] and [2], each with a LoadControl server (limit list
// read/write, description read-only) and a Measurement server, plus client features.
func stdLocal(w *world.World) {
	for _, a := range [][]uint{{1}, {2}} {
		stdLocalEntity(w, a)
	}
}

func stdLocalEntity(w *world.World, a []uint) {
	{
		e := w.AddLocalEntity(a, model.EntityTypeTypeCEM, 0)
		world.AddLocalFeature(e, model.FeatureTypeTypeLoadControl, model.RoleTypeServer,
			world.FuncSpec{Fn: fnLimit, R: true, W: true}, world.FuncSpec{Fn: fnLimitDesc, R: true})
		world.AddLocalFeature(e, model.FeatureTypeTypeMeasurement, model.RoleTypeServer, world.FuncSpec{Fn: fnMeas, R: true})
		world.AddLocalFeature(e, model.FeatureTypeTypeLoadControl, model.RoleTypeClient)
		world.AddLocalFeature(e, model.FeatureTypeTypeMeasurement, model.RoleTypeClient)
	}
}

// local feature numbers produced by stdLocal on each entity
const (
	lLCServer   = 1
	lMeasServer = 2
	lLCClient   = 3
	lMeasClient = 4
)

func stdWorld(events bool, peers ...string) *world.World {
	w := world.New(events)
	stdLocal(w)
	for _, p := range peers {
		w.ConnectAndAnnounce(p, "d"+p, []world.EntSpec{clientEntity([]uint{1}), clientEntity([]uint{2})})
	}
	return w
}

func panicsAndDeadlocks(res *rt.Result) []string {
	var v []string
	for _, p := range res.Panics {
		v = append(v, fmt.Sprintf("panic in %s | %s: %s", p.Frame, p.Thread, p.Value))
	}
	if len(res.Deadlock) > 0 {
		var ops []string
		for _, b := range res.Deadlock {
			ops = append(ops, b.Thread+":"+b.Op)
		}
		sort.Strings(ops)
		v = append(v, "deadlock | "+strings.Join(ops, ","))
	}
	if res.Stuck {
		v = append(v, "stuck: no thread enabled before the driver finished")
	}
	if res.Horizon {
		v = append(v, "horizon: execution did not finish within the step horizon")
	}
	return v
}

func countResults(outs []world.Out, conn string, ref uint64) (ok, bad int) {
	for _, o := range outs {
		if o.Conn == conn && o.Class == "result" && o.Ref == int64(ref) {
			if o.Err == 0 {
				ok++
			} else {
				bad++
			}
		}
	}
	return
}

func boundsFor(c *engine.Ctx, quick, thorough []int) []int {
	if c.Thorough {
		return thorough
	}
	return quick
}

// mergeS runs the schedule part of a check after its history part and adds the counts up.
func mergeS(c *engine.Ctx, rep *engine.Report, scs []*engine.SScenario, plan engine.SPlan) {
	hs, _ := rep.Coverage["states"].(int)
	ht, _ := rep.Coverage["transitions"].(int)
	hsamples, _ := rep.Coverage["samples"].([]any)
	hb, _ := rep.Coverage["time_budget_hit"].(bool)
	prevEx, hadEx := rep.Coverage["exhaustive"].(bool)
	engine.RunSchedules(c, scs, plan, rep)
	if hadEx && !prevEx {
		rep.Coverage["exhaustive"] = false
	}
	rep.Coverage["states"] = rep.Coverage["states"].(int) + hs
	rep.Coverage["transitions"] = rep.Coverage["transitions"].(int) + ht
	rep.Coverage["traces_validated_against_impl"] = rep.Coverage["traces_validated_against_impl"].(int) + ht
	rep.Coverage["samples"] = append(rep.Coverage["samples"].([]any), hsamples...)
	if hb {
		rep.Coverage["time_budget_hit"] = true
		rep.Coverage["exhaustive"] = false
	}
}
