package checks

import (
	"strings"

	"github.com/enbility/spine-go/internal/verifh/engine"
)

// Pair matrix: instead of hand-picked concurrent scenarios, EVERY pair of operations that can
// overlap in a running stack — one message on peer A's connection, one on peer B's, or a local API
// call (two messages of one connection are never processed concurrently: one reader per
// connection) — is explored under the scheduler from two prior states (empty registries; both
// peers subscribed and bound, identical numbering) and judged by the sequential-order oracle of
// conc.go, followed by sequential probes (data changes and writes) that show who is subscribed
// and who is authorised afterwards. A pair is attributed to the property that governs its
// operations, so each check explores the part of the matrix that belongs to its statement.

var (
	pairConnA = []string{"sub:A:e1f1:L1lc:lc:d", "unsub:A:e1f1:L1lc:d", "bind:A:e1f1:L1lc:lc:d", "unbind:A:e1f1:L1lc:d", "write:A:e1f1:L1lc:limit:ack:2", "entrm:A:1", "entadd:A:1"}
	pairConnB = []string{"sub:B:e1f1:L1lc:lc:d", "unsub:B:e1f1:L1lc:d", "bind:B:e1f1:L1lc:lc:d", "unbind:B:e1f1:L2lc:d", "write:B:e1f1:L2lc:limit:ack:2", "entrm:B:1", "entadd:B:1"}
	pairLocal = []string{"set:L1lc:2", "lupd:L1lc:1:5:t", "disc:A", "disc:B"}

	pairPreludes = map[string][]string{
		"empty": nil,
		"full":  {"sub:A:e1f1:L1lc:lc:d", "sub:A:e2f1:L2lc:lc:d", "bind:A:e1f1:L1lc:lc:d", "sub:B:e1f1:L1lc:lc:d", "bind:B:e1f1:L2lc:lc:d"},
	}
	pairProbes = []string{"set:L1lc:1", "set:L2lc:1", "write:A:e1f1:L1lc:limit:ack:1", "write:B:e1f1:L2lc:limit:ack:1", "write:B:e1f1:L1lc:limit:ack:1"}
)

func opKind(op string) string { return op[:strings.Index(op, ":")] }

func opPeer(op string) string {
	f := strings.Split(op, ":")
	switch f[0] {
	case "set", "lupd", "ldel":
		return ""
	}
	return f[1]
}

// pairOwners names the properties a pair of operations belongs to: the one that governs its operations, and —
// when one side is a teardown — C10 as well as the property of the other side ("every other binding / entry /
// authorisation stays in place" is stated there too).
func pairOwners(a, b string) []string {
	ka, kb := opKind(a), opKind(b)
	is := func(k ...string) bool {
		for _, x := range k {
			if ka == x || kb == x {
				return true
			}
		}
		return false
	}
	var o []string
	if is("disc", "entrm") {
		o = append(o, "C10")
	}
	switch {
	case is("write"):
		o = append(o, "C03")
	case is("bind", "unbind"):
		o = append(o, "C09")
	case is("sub", "unsub", "set", "lupd"):
		o = append(o, "C08")
	}
	if len(o) == 0 {
		o = []string{"C10"}
	}
	return o
}

func pairOwnedBy(owner, a, b string) bool {
	for _, o := range pairOwners(a, b) {
		if o == owner {
			return true
		}
	}
	return false
}

// pairMatrix returns the scenarios of the matrix owned by the given property. The quick tier takes
// the populated prior state only where the empty one makes both operations trivially rejected.
func pairMatrix(owner string, thorough bool) []*engine.SScenario {
	var scs []*engine.SScenario
	add := func(a, b string) {
		if !pairOwnedBy(owner, a, b) {
			return
		}
		// (a connection removal while the reader of that very connection is still processing a message is part of
		// the matrix: the outcome must be that of "message, then removal" or of "removal, then the message is dropped")
		for _, pn := range []string{"empty", "full"} {
			if !thorough && pn == "empty" {
				rejected := func(op string) bool {
					switch opKind(op) {
					case "unsub", "unbind", "write", "entrm", "disc":
						return true
					}
					return false
				}
				if rejected(a) || rejected(b) {
					continue
				}
			}
			same := (opKind(a) == "disc" && opPeer(b) == opPeer(a) && opKind(b) != "disc") || (opKind(b) == "disc" && opPeer(a) == opPeer(b) && opKind(a) != "disc")
			sc := linScenarioOpt(pairPreludes[pn], [][]string{{a}, {b}}, pairProbes, same)
			sc.Name = "pair[" + pn + "] " + a + " || " + b
			// teardowns are long operations: the quick tier explores these pairs up to one deviation
			// (not the removals racing the reader of the same connection: those need two deviations — the message has
			// to pass the entry of message handling before the removal starts, and the removal has to be interrupted)
			// (announcements and teardowns are long operations: the quick tier explores their pairs up to one deviation)
			long := false
			for _, k := range []string{"disc", "entrm", "entadd"} {
				long = long || opKind(a) == k || opKind(b) == k
			}
			sc.Heavy = long && !(same && (opKind(a) == "disc" || opKind(b) == "disc") && opKind(a) != "entadd" && opKind(b) != "entadd")
			scs = append(scs, sc)
		}
	}
	for _, a := range pairConnA {
		for _, b := range pairConnB {
			add(a, b)
		}
	}
	for _, l := range pairLocal {
		for _, a := range pairConnA {
			add(a, l)
		}
		for _, b := range pairConnB {
			add(b, l)
		}
	}
	for i, a := range pairLocal {
		for _, b := range pairLocal[i+1:] {
			add(a, b)
		}
	}
	return scs
}
