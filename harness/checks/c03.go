package checks

import (
	"github.com/enbility/spine-go/internal/verifh/engine"
)

// C03 — a remote write takes effect only with a binding and write permission.

var c03Prelude = []string{"sub:B:e2f1:L1lc:lc:d", "sub:B:e2f1:L2lc:lc:d", "sub:A:e2f1:L1lc:lc:d"}

func c03Alphabet(thorough bool) []string {
	var a []string
	peers := []string{"A", "B"}
	clients := []string{"e1f1", "e1f2"}
	servers := []string{"L1lc", "L2lc"}
	for _, p := range peers {
		for _, c := range clients {
			for _, s := range servers {
				if !thorough && p == "B" && c == "e1f2" {
					continue
				}
				a = append(a, "bind:"+p+":"+c+":"+s+":lc:d")
			}
		}
	}
	for _, p := range peers {
		for _, c := range clients {
			for _, s := range servers {
				if !thorough && p == "B" && c == "e1f2" {
					continue
				}
				a = append(a, "unbind:"+p+":"+c+":"+s+":d")
			}
		}
	}
	a = append(a, "disc:A", "disc:B", "reconn:A", "reconn:B", "entrm:A:1", "entadd:A:1", "entrm:B:1", "entadd:B:1")
	shapes := []string{"limit:ack:2", "limit:noack:1", "desc:ack:2", "constr:ack:2"}
	if thorough {
		shapes = append(shapes, "limit:ack:1", "limit:noack:2", "desc:noack:1", "constr:noack:1")
	}
	for _, p := range peers {
		for _, c := range clients {
			for _, s := range servers {
				for _, sh := range shapes {
					a = append(a, "write:"+p+":"+c+":"+s+":"+sh)
				}
			}
		}
	}
	// nested addresses: a binding of [1]/1 does not authorise [1,1]/1, a binding to L[1] does not open L[1,1], and vice versa
	a = append(a, "bind:A:e11f1:L1lc:lc:d", "bind:A:e1f1:L11lc:lc:d", "unbind:A:e11f1:L1lc:d",
		"write:A:e11f1:L1lc:limit:ack:2", "write:A:e1f1:L11lc:limit:ack:2", "write:A:e11f1:L11lc:limit:ack:2", "entrm:A:11", "entrm:A:1:bad")
	// the device part of the source address in the header: naming the other peer's device (which uses the same
	// numbers and may hold the binding) or omitting it does not change who the writer is
	a = append(a, "write:B:e1f1:L1lc:limit:ack:2:x", "write:A:e1f1:L1lc:limit:ack:2:n", "write:A:e1f1:L2lc:limit:noack:1:x")
	// the binding is given up by a delete that omits the device parts (legal, SPINE 7.4.4), or "given up" by one that
	// names a client feature of the other peer's device (addresses no binding of the sender)
	a = append(a, "unbind:A:e1f1:L1lc:n", "unbind:B:e1f1:L2lc:n", "unbind:A:e1f1:L1lc:x")
	// writes to features that cannot be written, and from a feature the peer never announced
	a = append(a, "write:A:e1f1:L1ms:limit:ack:2", "write:A:e1f1:L1cl:limit:ack:2", "write:A:e1f1:L1x:limit:ack:2",
		"write:A:e1f9:L1lc:limit:ack:2", "write:A:e2f1:L1lc:limit:ack:2", "write:B:e1f3:L1lc:limit:ack:2")
	return a
}

func c03Drivers(thorough bool) []*engine.HDriver {
	d := regDriver("write-authorisation", c03Alphabet(thorough), true, false, nil)
	step := d.Step
	d.Step = func(hist []string, op string) engine.HStep {
		return step(append(append([]string{}, c03Prelude...), hist...), op)
	}
	// a write that passed the gate waits for the application's approval; when the application answers, the write is
	// applied only if the stack still holds it: the writer's entity or device having disappeared meanwhile ends it
	// (a binding that was merely deleted does not: the write was authorised when it was processed)
	ap := regDriver("write-authorisation-of-writes-waiting-for-approval", []string{"bind:A:e1f1:L1lc:lc:d", "write:A:e1f1:L1lc:limit:ack:2", "entrm:A:1", "entadd:A:1", "appr",
		"unbind:A:e1f1:L1lc:d", "disc:A", "reconn:A", "fire", "sub:B:e1f1:L1lc:lc:d", "bind:A:e2f1:L1lc:lc:d", "write:A:e2f1:L1lc:limit:ack:1"}, true, true, nil)
	return []*engine.HDriver{d, ap}
}

func init() {
	engine.Register(&engine.Check{
		ID:        "C03",
		NeedsRace: true,
		Drivers:   func(c *engine.Ctx) []*engine.HDriver { return c03Drivers(c.Thorough) },
		Scenarios: func(c *engine.Ctx) []*engine.SScenario { return c03Scenarios() },
		Run: func(c *engine.Ctx) *engine.Report {
			rep := &engine.Report{Level: "model_checking", Coverage: map[string]any{"exhaustive": true}}
			for _, d := range c03Drivers(c.Thorough) {
				depth := 4
				if c.Thorough {
					depth = 64
				}
				if d.Name != "write-authorisation" && !c.Thorough {
					depth = 6 // small alphabet of one peer
				}
				st := engine.RunHistories(c, d, depth, rep)
				engine.AddHCoverage(rep, d.Name, st, len(d.Alphabet))
				rep.Coverage["closure_reached"] = st.Closure
				rep.Coverage["max_depth"] = st.MaxDepth
				rep.Coverage["exhaustive"] = st.Closure || !st.BudgetHit
			}
			mergeS(c, rep, c03Scenarios(), engine.SPlan{Bounds: boundsFor(c, []int{0, 1, 2}, []int{0, 1, 2, 3}), Race: true, RaceMaxBound: 1, RaceFuncs: []string{"BindingManager"}})
			rep.Assumptions = []string{"every history starts after three subscriptions (B[2]/1 to both LoadControl servers, A[2]/1 to L[1]) so that a notification to a subscriber is observable; written lists carry isLimitChangeable=true on every element (write protection is C04's subject)"}
			return rep
		},
	})
}

// c03Scenarios: authorisation follows the registry also when the writer's unbind (or bind) is
// processed while another peer is torn down: afterwards the write is judged as after a sequential execution.
func c03Scenarios() []*engine.SScenario {
	return append(pairMatrix("C03", false), []*engine.SScenario{
		teardownScenario("disc:A", []string{"unbind:B:e1f1:L2lc:d"}, []string{"write:B:e1f1:L2lc:limit:ack:2", "write:B:e1f1:L2lc:limit:noack:1"}),
		teardownScenario("entrm:A:1", []string{"unbind:B:e1f1:L2lc:d", "bind:B:e1f2:L2lc:lc:d"}, []string{"write:B:e1f1:L2lc:limit:ack:2", "write:B:e1f2:L2lc:limit:ack:2"}),
	}...)
}
