package checks

import (
	"fmt"
	"sort"
	"time"

	rt "github.com/enbility/spine-go/internal/verifrt"

	"github.com/enbility/spine-go/api"
	"github.com/enbility/spine-go/internal/verifh/engine"
	"github.com/enbility/spine-go/internal/verifh/world"
	"github.com/enbility/spine-go/model"
	"github.com/enbility/spine-go/spine"
	"github.com/enbility/spine-go/util"
)

// C17 — concurrent use is free of data races and deadlocks.

type c17World struct {
	fresh      int
	discReply  model.DatagramType // built during set-up (building it reads the writer of the connection)
	notifyCtrs []uint64
	w          *world.World
	a, b       *world.Peer
	srv        api.FeatureLocalInterface
	cli        api.FeatureLocalInterface
	diag       api.EntityLocalInterface
	pending    []*api.Message
	extra      *spine.EntityLocal
	reqCtr     uint64 // counter of a request of the local client feature that peer A has not answered yet
}

//go:norace
func (c *c17World) addPending(m *api.Message) { c.pending = append(c.pending, m) }

//go:norace
func (c *c17World) nthPending(n int) *api.Message {
	if len(c.pending) <= n {
		return nil
	}
	return c.pending[n]
}

//go:norace
func (c *c17World) firstPending() *api.Message {
	if len(c.pending) == 0 {
		return nil
	}
	return c.pending[0]
}

// c17Fresh numbers the executions of a worker process: discovery messages announce, next to the usual features,
// one feature of a vendor-specific type that this process has not seen before, so that anything the stack
// remembers per feature-type name (process-wide) is written, not only read, in every execution.
var c17Fresh int

//go:norace
func c17NextFresh() int { c17Fresh++; return c17Fresh }

func withVendorFeature(es world.EntSpec, tag string, n int) world.EntSpec {
	es.Feats = append(append([]world.FeatSpec{}, es.Feats...), world.FeatSpec{Num: 9, Type: model.FeatureTypeType(fmt.Sprintf("Vendor%s%d", tag, n)), Role: model.RoleTypeClient, Desc: "vendor specific"})
	return es
}

func newC17World() *c17World {
	c := &c17World{w: stdWorld(false, "A", "B")}
	c.fresh = c17NextFresh()
	defer func() {
		// two more notifications to A, and the counters of all notifications A got
		c.srv.SetData(fnLimit, limitList(2, 1, 2))
		c.srv.SetData(fnLimit, limitList(1, 1, 2))
		rt.WaitIdle()
		for _, d := range c.a.W.Datagrams(0) {
			if d.Header.CmdClassifier != nil && *d.Header.CmdClassifier == model.CmdClassifierTypeNotify && d.Header.MsgCounter != nil {
				c.notifyCtrs = append(c.notifyCtrs, uint64(*d.Header.MsgCounter))
			}
		}
		c.discReply = c.a.DiscoveryReply([]world.EntSpec{withVendorFeature(clientEntity([]uint{1}), "R", c.fresh), clientEntity([]uint{2})})
	}()
	c.a, c.b = c.w.Peers["A"], c.w.Peers["B"]
	c.srv = c.w.L.FeatureByAddress(srvAddr("L1lc", true))
	c.cli = c.w.L.FeatureByAddress(world.FAddr(world.LocalAddr, []uint{1}, lLCClient))
	c.srv.SetData(fnLimit, limitList(1, 1, 2))
	c.a.Deliver(c.a.BindCall(cliAddr("A", "e1f1", true), srvAddr("L1lc", true), model.FeatureTypeTypeLoadControl))
	c.a.Deliver(c.a.SubscribeCall(cliAddr("A", "e1f1", true), srvAddr("L1lc", true), model.FeatureTypeTypeLoadControl))
	c.b.Deliver(c.b.SubscribeCall(cliAddr("B", "e1f1", true), srvAddr("L1lc", true), model.FeatureTypeTypeLoadControl))
	// entity [3] with a heartbeat and a server feature with an approval callback and a pending write of B
	c.diag = c.w.AddLocalEntity([]uint{3}, model.EntityTypeTypeCEM, 4*time.Second)
	d := c.diag.GetOrAddFeature(model.FeatureTypeTypeDeviceDiagnosis, model.RoleTypeServer)
	d.AddFunctionType(model.FunctionTypeDeviceDiagnosisHeartbeatData, true, false)
	ap := c.w.L.FeatureByAddress(srvAddr("L2lc", true))
	ap.SetData(fnLimit, limitList(1, 1, 2))
	// two applications have to approve (the stack then keeps a tally per write), two writes of B are waiting
	_ = ap.AddWriteApprovalCallback(func(m *api.Message) { c.addPending(m) })
	_ = ap.AddWriteApprovalCallback(func(m *api.Message) {})
	c.b.Deliver(c.b.BindCall(cliAddr("B", "e1f1", true), srvAddr("L2lc", true), model.FeatureTypeTypeLoadControl))
	c.b.Deliver(c.b.Datagram(cliAddr("B", "e1f1", true), srvAddr("L2lc", true), model.CmdClassifierTypeWrite, true, nil, model.CmdType{LoadControlLimitListData: limitList(2, 1, 2)}))
	c.b.Deliver(c.b.Datagram(cliAddr("B", "e1f1", true), srvAddr("L2lc", true), model.CmdClassifierTypeWrite, true, nil, model.CmdType{LoadControlLimitListData: limitList(3, 1, 2)}))
	c.extra = spine.NewEntityLocal(c.w.L, model.EntityTypeTypeCEM, spine.NewAddressEntityType([]uint{4}), 4*time.Second)
	c.extra.GetOrAddFeature(model.FeatureTypeTypeMeasurement, model.RoleTypeServer)
	if ctr, err := c.cli.RequestRemoteData(fnLimit, nil, nil, c.a.Dev.FeatureByAddress(cliAddr("A", "e1f4", true))); err == nil && ctr != nil {
		c.reqCtr = uint64(*ctr)
		_ = c.cli.AddResponseCallback(*ctr, func(api.ResponseMessage) {})
	}
	rt.WaitIdle()
	return c
}

// withReentrantHandler adds connection D and the application handler that calls back into the stack (only the
// scenarios that use it pay for it).
func (c *c17World) withReentrantHandler() {
	_ = spine.Events.Subscribe(&c17Reenter{c: c})
	c.w.Connect("D", "dD")
	rt.WaitIdle()
}

type c17Reenter struct {
	c    *c17World
	done bool
}

func (h *c17Reenter) HandleEvent(p api.EventPayload) {
	if p.EventType != api.EventTypeDeviceChange || p.ChangeType != api.ElementChangeRemove || p.Ski != "D" || c17once(&h.done) {
		return
	}
	h.c.w.L.RemoveRemoteDeviceConnection("D")
	_ = h.c.w.L.RemoteDevices()
}

//go:norace
func c17once(b *bool) bool {
	was := *b
	*b = true
	return was
}

type c17Op struct {
	name string
	f    func(c *c17World)
}

func c17Ops() []c17Op {
	lim := func(v int) model.CmdType { return model.CmdType{LoadControlLimitListData: limitList(v, 1, 2)} }
	partialSel := func() (*model.FilterType, model.CmdType) {
		f := model.FilterType{CmdControl: &model.CmdControlType{Partial: &model.ElementTagType{}}, LoadControlLimitListDataSelectors: &model.LoadControlLimitListDataSelectorsType{LimitId: util.Ptr(model.LoadControlLimitIdType(1))}}
		return &f, model.CmdType{Function: util.Ptr(fnLimit), Filter: []model.FilterType{f}, LoadControlLimitListData: limitList(3, 1)}
	}
	return []c17Op{
		{"A:read", func(c *c17World) {
			c.a.Deliver(c.a.Datagram(cliAddr("A", "e1f1", true), srvAddr("L1lc", true), model.CmdClassifierTypeRead, false, nil, model.CmdType{LoadControlLimitListData: &model.LoadControlLimitListDataType{}}))
		}},
		{"A:write", func(c *c17World) {
			_, cmd := partialSel()
			c.a.Deliver(c.a.Datagram(cliAddr("A", "e1f1", true), srvAddr("L1lc", true), model.CmdClassifierTypeWrite, true, nil, cmd))
		}},
		{"A:notify", func(c *c17World) {
			c.a.Deliver(c.a.Datagram(cliAddr("A", "e1f4", true), c.cli.Address(), model.CmdClassifierTypeNotify, false, nil, lim(2)))
		}},
		{"A:subscribe", func(c *c17World) {
			c.a.Deliver(c.a.SubscribeCall(cliAddr("A", "e2f1", true), srvAddr("L2lc", true), model.FeatureTypeTypeLoadControl))
		}},
		{"A:subscribe-again-after-reannouncement", func(c *c17World) {
			// the peer has answered a discovery read once more (its feature objects were replaced, the registry entries
			// still hold the old ones) and repeats a subscription request it already holds
			c.a.Deliver(c.a.SubscribeCall(cliAddr("A", "e1f1", true), srvAddr("L1lc", true), model.FeatureTypeTypeLoadControl))
		}},
		{"A:unbind+bind", func(c *c17World) {
			c.a.Deliver(c.a.UnbindCall(cliAddr("A", "e1f1", true), srvAddr("L1lc", true)))
			c.a.Deliver(c.a.BindCall(cliAddr("A", "e1f2", true), srvAddr("L1lc", true), model.FeatureTypeTypeLoadControl))
		}},
		{"A:discovery-notify", func(c *c17World) {
			st := model.NetworkManagementStateChangeTypeAdded
			cmd := model.CmdType{Function: util.Ptr(model.FunctionTypeNodeManagementDetailedDiscoveryData), Filter: []model.FilterType{*model.NewFilterTypePartial()},
				NodeManagementDetailedDiscoveryData: c.a.DiscoveryData([]world.EntSpec{withVendorFeature(clientEntity([]uint{1, 1}), "A", c.fresh)}, false, &st)}
			c.a.Deliver(c.a.Datagram(c.a.NM(), world.LocalNM(), model.CmdClassifierTypeNotify, false, nil, cmd))
		}},
		{"A:discovery-reply", func(c *c17World) {
			// a peer answers a detailed discovery read once more: device description and every entity are replaced
			c.a.Deliver(c.discReply)
		}},
		{"A:entity-removed", func(c *c17World) {
			st := model.NetworkManagementStateChangeTypeRemoved
			cmd := model.CmdType{Function: util.Ptr(model.FunctionTypeNodeManagementDetailedDiscoveryData), Filter: []model.FilterType{*model.NewFilterTypePartial()},
				NodeManagementDetailedDiscoveryData: c.a.DiscoveryData([]world.EntSpec{{Addr: []uint{2}, Type: model.EntityTypeTypeCEM}}, false, &st)}
			c.a.Deliver(c.a.Datagram(c.a.NM(), world.LocalNM(), model.CmdClassifierTypeNotify, false, nil, cmd))
		}},
		{"B:read-discovery", func(c *c17World) {
			c.b.Deliver(c.b.Datagram(c.b.NM(), world.LocalNM(), model.CmdClassifierTypeRead, false, nil, model.CmdType{NodeManagementDetailedDiscoveryData: &model.NodeManagementDetailedDiscoveryDataType{}}))
		}},
		{"B:write-unbound", func(c *c17World) {
			c.b.Deliver(c.b.Datagram(cliAddr("B", "e1f1", true), srvAddr("L1lc", true), model.CmdClassifierTypeWrite, true, nil, lim(2)))
		}},
		{"B:subscribe", func(c *c17World) {
			c.b.Deliver(c.b.SubscribeCall(cliAddr("B", "e2f1", true), srvAddr("L2lc", true), model.FeatureTypeTypeLoadControl))
		}},
		{"local:SetData", func(c *c17World) { c.srv.SetData(fnLimit, limitList(2, 1, 2)) }},
		{"local:UpdateData", func(c *c17World) {
			f, _ := partialSel()
			c.srv.UpdateData(fnLimit, limitList(3, 1), f, nil)
		}},
		{"local:AddUseCaseSupport", func(c *c17World) {
			c.w.L.Entity(spine.NewAddressEntityType([]uint{1})).AddUseCaseSupport(model.UseCaseActorTypeCEM, ucNames["u1"], "1.0.0", "r", true, scenList("12"))
		}},
		{"local:AddEntity+RemoveEntity", func(c *c17World) { c.w.L.AddEntity(c.extra); c.w.L.RemoveEntity(c.extra) }},
		{"local:RequestRemoteData", func(c *c17World) {
			// (while the peer's entities are being re-announced the feature may not be resolvable for a moment)
			if rf := c.a.Dev.FeatureByAddress(cliAddr("A", "e1f4", true)); rf != nil {
				_, _ = c.cli.RequestRemoteData(fnLimit, nil, nil, rf)
			}
		}},
		{"local:SubscribeToRemote", func(c *c17World) { _, _ = c.cli.SubscribeToRemote(cliAddr("A", "e1f4", true)) }},
		{"local:approve-pending-write", func(c *c17World) {
			// both applications approve the first of the two waiting writes
			if m := c.firstPending(); m != nil {
				c.w.L.FeatureByAddress(srvAddr("L2lc", true)).ApproveOrDenyWrite(m, model.ErrorType{})
				c.w.L.FeatureByAddress(srvAddr("L2lc", true)).ApproveOrDenyWrite(m, model.ErrorType{})
			}
		}},
		{"local:approve-second-write-once", func(c *c17World) {
			// one of the two applications approves the second waiting write (the tally stays open)
			if m := c.nthPending(1); m != nil {
				c.w.L.FeatureByAddress(srvAddr("L2lc", true)).ApproveOrDenyWrite(m, model.ErrorType{})
			}
		}},
		{"local:approval-timeout-elapses", func(c *c17World) {
			// the approval timeouts of the waiting writes fire while the other thread is at work
			rt.Advance(15 * time.Second)
		}},
		{"local:heartbeat-stop+start", func(c *c17World) {
			c.diag.HeartbeatManager().StopHeartbeat()
			_ = c.diag.HeartbeatManager().StartHeartbeat()
			_ = c.diag.HeartbeatManager().IsHeartbeatRunning()
		}},
		// error paths must release what they took: each call is made twice, the second one would block on a leaked lock
		{"local:heartbeat-without-feature", func(c *c17World) {
			hm := c.extra.HeartbeatManager()
			for i := 0; i < 2; i++ {
				_ = hm.StartHeartbeat()
				hm.StopHeartbeat()
				_ = hm.IsHeartbeatRunning()
			}
			d := c.extra.GetOrAddFeature(model.FeatureTypeTypeDeviceDiagnosis, model.RoleTypeServer)
			d.AddFunctionType(model.FunctionTypeDeviceDiagnosisHeartbeatData, true, false)
			hm.StopHeartbeat()
		}},
		{"B:rejected-registry-calls", func(c *c17World) {
			for i := 0; i < 2; i++ {
				// a binding of B exists (B[1]/1 -> L[2]/1): delete it with an inconsistent device part, delete unknown pairs,
				// request what cannot be granted
				c.b.Deliver(c.b.UnbindCall(world.FAddr("dA", []uint{1}, 1), srvAddr("L2lc", true)))
				c.b.Deliver(c.b.UnsubscribeCall(world.FAddr("dA", []uint{1}, 1), srvAddr("L1lc", true)))
				c.b.Deliver(c.b.UnbindCall(cliAddr("B", "e2f1", true), srvAddr("L2lc", true)))
				c.b.Deliver(c.b.UnsubscribeCall(cliAddr("B", "e2f1", true), srvAddr("L2lc", true)))
				c.b.Deliver(c.b.BindCall(cliAddr("B", "e1f3", true), srvAddr("L1lc", true), model.FeatureTypeTypeLoadControl))
				c.b.Deliver(c.b.SubscribeCall(cliAddr("B", "e1f9", true), srvAddr("L1lc", true), model.FeatureTypeTypeLoadControl))
			}
			c.b.Deliver(c.b.BindCall(cliAddr("B", "e2f1", true), srvAddr("L1ms", true), model.FeatureTypeTypeMeasurement))
		}},
		// configuration calls an application makes at run time (use-case implementations add features, functions,
		// callbacks and descriptions when a use case is added, possibly while peers are connected)
		{"local:configure-features", func(c *c17World) {
			e := c.w.L.Entity(spine.NewAddressEntityType([]uint{2}))
			f := e.GetOrAddFeature(model.FeatureTypeTypeElectricalConnection, model.RoleTypeServer)
			f.AddFunctionType(model.FunctionTypeElectricalConnectionDescriptionListData, true, false)
			f.SetDescriptionString("electrical connection")
			c.srv.AddFunctionType(model.FunctionTypeLoadControlLimitConstraintsListData, true, false)
			c.srv.SetDescriptionString("limits")
			c.srv.SetWriteApprovalTimeout(5 * time.Second)
			_ = c.srv.AddWriteApprovalCallback(func(m *api.Message) {})
			c.cli.AddResultCallback(func(api.ResponseMessage) {})
			_ = c.cli.AddResponseCallback(4711, func(api.ResponseMessage) {})
		}},
		{"local:use-case-changes", func(c *c17World) {
			e := c.w.L.Entity(spine.NewAddressEntityType([]uint{2}))
			e.AddUseCaseSupport(model.UseCaseActorTypeCEM, ucNames["u2"], "1.0.0", "r", true, scenList("1"))
			e.SetUseCaseAvailability(model.UseCaseActorTypeCEM, ucNames["u2"], false)
			_ = e.HasUseCaseSupport(model.UseCaseActorTypeCEM, ucNames["u2"])
			e.RemoveUseCaseSupport(model.UseCaseActorTypeCEM, ucNames["u2"])
			e.RemoveAllUseCaseSupports()
		}},
		{"local:bind+unbind-remote", func(c *c17World) {
			ra := cliAddr("A", "e1f4", true)
			_, _ = c.cli.BindToRemote(ra)
			_ = c.cli.HasBindingToRemote(ra)
			_ = c.cli.HasSubscriptionToRemote(ra)
			_, _ = c.cli.RemoveRemoteBinding(ra)
			_, _ = c.cli.RemoveRemoteSubscription(ra)
		}},
		{"local:connect-peer-C", func(c *c17World) {
			p := c.w.ConnectAndAnnounce("C", "dC", []world.EntSpec{clientEntity([]uint{1})})
			p.Deliver(p.SubscribeCall(world.FAddr("dC", []uint{1}, 1), srvAddr("L1lc", true), model.FeatureTypeTypeLoadControl))
		}},
		{"local:application-handler-reenters", func(c *c17World) {
			// an application event handler that calls back into the stack when it is told that a connection is gone
			// (it makes sure the connection is removed — a call that publishes itself — and looks at the device list)
			// (handler and connection D are part of the prepared world)
			c.w.L.RemoveRemoteDeviceConnection("D")
		}},
		{"A:reply+result", func(c *c17World) {
			c.a.Deliver(c.a.Datagram(cliAddr("A", "e1f4", true), c.cli.Address(), model.CmdClassifierTypeReply, false, ptrCtr(c.reqCtr), lim(2)))
			c.a.Deliver(c.a.Datagram(cliAddr("A", "e1f4", true), c.cli.Address(), model.CmdClassifierTypeResult, false, ptrCtr(c.reqCtr),
				model.CmdType{ResultData: &model.ResultDataType{ErrorNumber: util.Ptr(model.ErrorNumberType(0))}}))
		}},
		{"A:usecase-reply+nm-reads", func(c *c17World) {
			uc := &model.NodeManagementUseCaseDataType{}
			uc.AddUseCaseSupport(*world.FAddr("dA", []uint{1}, 0), model.UseCaseActorTypeCEM, ucNames["u1"], "1.0.0", "r", true, scenList("12"))
			c.a.Deliver(c.a.Datagram(c.a.NM(), world.LocalNM(), model.CmdClassifierTypeReply, false, ptrCtr(3), model.CmdType{NodeManagementUseCaseData: uc}))
			c.a.Deliver(c.a.Datagram(c.a.NM(), world.LocalNM(), model.CmdClassifierTypeRead, false, nil, model.CmdType{NodeManagementSubscriptionData: &model.NodeManagementSubscriptionDataType{}}))
			c.a.Deliver(c.a.Datagram(c.a.NM(), world.LocalNM(), model.CmdClassifierTypeRead, false, nil, model.CmdType{NodeManagementBindingData: &model.NodeManagementBindingDataType{}}))
			c.a.Deliver(c.a.Datagram(c.a.NM(), world.LocalNM(), model.CmdClassifierTypeRead, false, nil, model.CmdType{NodeManagementUseCaseData: &model.NodeManagementUseCaseDataType{}}))
			c.a.Deliver(c.a.Datagram(c.a.NM(), world.LocalNM(), model.CmdClassifierTypeRead, false, nil, model.CmdType{NodeManagementDestinationListData: &model.NodeManagementDestinationListDataType{}}))
		}},
		{"B:full-discovery-notify", func(c *c17World) {
			cmd := model.CmdType{NodeManagementDetailedDiscoveryData: c.b.DiscoveryData([]world.EntSpec{clientEntity([]uint{1}), withVendorFeature(clientEntity([]uint{3}), "B", c.fresh)}, true, nil)}
			c.b.Deliver(c.b.Datagram(c.b.NM(), world.LocalNM(), model.CmdClassifierTypeNotify, false, nil, cmd))
		}},
		{"local:RemoveRemoteDeviceConnection(B)", func(c *c17World) { c.w.L.RemoveRemoteDeviceConnection("B") }},
		{"local:DatagramForMsgCounter", func(c *c17World) {
			// counters of notifications that are in the cache (sent to A during set-up), and one that is not
			for _, k := range c.notifyCtrs {
				_, _ = c.a.Dev.Sender().DatagramForMsgCounter(model.MsgCounterType(k))
			}
			_, _ = c.a.Dev.Sender().DatagramForMsgCounter(3)
		}},
		{"local:readers", func(c *c17World) {
			devs := c.w.L.RemoteDevices()
			// (RemoteDevices iterates a map: fix the order, so that the sequence of scheduling points is reproducible)
			sort.Slice(devs, func(i, j int) bool { return devs[i].Ski() < devs[j].Ski() })
			for _, d := range devs {
				for _, e := range d.Entities() {
					for _, f := range e.Features() {
						_ = f.Operations()
						_ = f.DataCopy(fnLimit)
						_ = f.Description()
						_ = f.MaxResponseDelayDuration()
					}
				}
				_ = d.UseCases()
				_ = d.DestinationData()
				_ = d.Address()
				_ = d.DeviceType()
				_ = d.FeatureSet()
				for _, e := range d.Entities() {
					_ = e.Description()
					_ = e.EntityType()
					// (what an application does with an address: look at its parts)
					if a := e.Address(); a != nil {
						_ = world.EntAddrStr(a)
					}
					for _, f := range e.Features() {
						_ = world.AddrStr(f.Address())
					}
				}
				_ = c.w.L.SubscriptionManager().Subscriptions(d)
				_ = c.w.L.BindingManager().Bindings(d)
			}
			for _, e := range c.w.L.Entities() {
				for _, f := range e.Features() {
					_ = f.Functions()
					_ = f.Information()
					_ = f.Description()
				}
				_ = e.Information()
				_ = e.Description()
			}
			_ = c.w.L.DestinationData()
			_ = c.w.L.Information()
			_ = c.srv.DataCopy(fnLimit)
			_ = c.w.L.RemoteDeviceForSki("B")
		}},
	}
}

var c17Narrow = map[string]bool{"local:approve-second-write-once": true, "local:approval-timeout-elapses": true, "local:application-handler-reenters": true}
var c17ApprovalGroup = map[string]bool{"local:approve-second-write-once": true, "local:approval-timeout-elapses": true, "local:approve-pending-write": true,
	"local:RemoveRemoteDeviceConnection(B)": true, "B:write-unbound": true, "A:write": true, "A:entity-removed": true, "B:full-discovery-notify": true,
	"local:application-handler-reenters": true}

var c17Long = map[string]bool{"local:heartbeat-without-feature": true, "local:heartbeat-stop+start": true, "local:application-handler-reenters": true,
	"local:RemoveRemoteDeviceConnection(B)": true}

var c17AgainGroup = map[string]bool{"local:readers": true, "local:SetData": true, "B:subscribe": true}

var c17ReenterGroup = map[string]bool{"A:write": true, "local:RemoveRemoteDeviceConnection(B)": true, "local:application-handler-reenters": true}

func c17Scenarios(thorough bool) []*engine.SScenario {
	ops := c17Ops()
	mk := func(sel []int) *engine.SScenario {
		name := ""
		for i, s := range sel {
			if i > 0 {
				name += " || "
			}
			name += ops[s].name
		}
		// three threads, and the pairs of the two longest operations among themselves, are explored one bound less in the quick tier
		heavy := len(sel) > 2
		if len(sel) == 2 && c17Long[ops[sel[0]].name] && c17Long[ops[sel[1]].name] {
			heavy = true
		}
		return &engine.SScenario{Name: name, TimersFree: false, MaxTicks: 1, Heavy: heavy, Run: func(cfg rt.Config) rt.Outcome {
			var dig string
			res := rt.Execute(cfg, func() {
				c := newC17World()
				for _, s := range sel {
					if ops[s].name == "local:application-handler-reenters" {
						c.withReentrantHandler()
						break
					}
				}
				for _, s := range sel {
					if ops[s].name == "A:subscribe-again-after-reannouncement" {
						// entity [1] is announced again by a partial notification: its feature objects are replaced,
						// the entity object stays
						st := model.NetworkManagementStateChangeTypeAdded
						cmd := model.CmdType{Function: util.Ptr(model.FunctionTypeNodeManagementDetailedDiscoveryData), Filter: []model.FilterType{*model.NewFilterTypePartial()},
							NodeManagementDetailedDiscoveryData: c.a.DiscoveryData([]world.EntSpec{clientEntity([]uint{1})}, false, &st)}
						c.a.Deliver(c.a.Datagram(c.a.NM(), world.LocalNM(), model.CmdClassifierTypeNotify, false, nil, cmd))
						rt.WaitIdle()
						break
					}
				}
				rt.BeginExplore()
				for _, s := range sel {
					s := s
					rt.Go(func() { ops[s].f(c) })
				}
				rt.WaitIdle()
				rt.Advance(30 * time.Second) // approval timeouts and one heartbeat tick
				rt.WaitIdle()
				rt.JoinFinished()
				n := 0
				for _, w := range c.w.Writers {
					n += w.Len()
				}
				dig = fmt.Sprint(n)
			})
			return rt.Outcome{Res: res, Violations: panicsAndDeadlocks(res), Digest: dig}
		}}
	}
	var scs []*engine.SScenario
	for i := range ops {
		for j := i; j < len(ops); j++ {
			// one connection delivers its messages one after the other: two inbound messages of the
			// same peer are never processed concurrently
			if ops[i].name[:2] == ops[j].name[:2] && (ops[i].name[:2] == "A:" || ops[i].name[:2] == "B:") {
				continue
			}
			// the two operations around the approval timeout are paired with what touches pending writes only
			if (c17Narrow[ops[i].name] && !c17ApprovalGroup[ops[j].name]) || (c17Narrow[ops[j].name] && !c17ApprovalGroup[ops[i].name]) {
				continue
			}
			// the re-entering application handler: against a message of a peer, a removal and itself
			// the repeated request after a re-announcement: against readers, a data change, and the other peer's request
			const ra = "A:subscribe-again-after-reannouncement"
			if (ops[i].name == ra && !c17AgainGroup[ops[j].name]) || (ops[j].name == ra && !c17AgainGroup[ops[i].name]) {
				continue
			}
			const re = "local:application-handler-reenters"
			if (ops[i].name == re && !c17ReenterGroup[ops[j].name]) || (ops[j].name == re && !c17ReenterGroup[ops[i].name]) {
				continue
			}
			scs = append(scs, mk([]int{i, j}))
		}
	}
	idx := func(n string) int {
		for i, o := range ops {
			if o.name == n {
				return i
			}
		}
		panic(n)
	}
	for _, t := range [][]string{
		{"local:approve-pending-write", "local:RemoveRemoteDeviceConnection(B)", "B:write-unbound"},
		{"A:subscribe", "B:subscribe", "local:SetData"},
		{"A:write", "local:UpdateData", "local:readers"},
		{"A:entity-removed", "B:subscribe", "local:readers"},
		{"local:heartbeat-stop+start", "local:AddEntity+RemoveEntity", "B:read-discovery"},
		{"A:notify", "local:RequestRemoteData", "local:DatagramForMsgCounter"},
	} {
		scs = append(scs, mk([]int{idx(t[0]), idx(t[1]), idx(t[2])}))
	}
	return scs
}

func init() {
	engine.Register(&engine.Check{
		ID:        "C17",
		NeedsRace: true,
		Scenarios: func(c *engine.Ctx) []*engine.SScenario { return c17Scenarios(c.Thorough) },
		Run: func(c *engine.Ctx) *engine.Report {
			rep := &engine.Report{Level: "model_checking", Coverage: map[string]any{}}
			plan := engine.SPlan{Bounds: boundsFor(c, []int{0, 1}, []int{0, 1, 2}), Race: true, RaceProp: true}
			engine.RunSchedules(c, c17Scenarios(c.Thorough), plan, rep)
			rep.Coverage["operations"] = len(c17Ops())
			rep.Assumptions = []string{"every explored schedule runs in the race-enabled build; the scheduler's hand-offs are invisible to the race detector (runtime.RaceDisable around them), so it reports exactly the accesses not ordered by the program's own synchronisation; reports are keyed by the innermost spine-go functions of the two accesses"}
			return rep
		},
	})
}
