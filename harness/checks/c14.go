package checks

import (
	"fmt"
	"sort"
	"strings"

	rt "github.com/enbility/spine-go/internal/verifrt"

	"github.com/enbility/spine-go/api"
	"github.com/enbility/spine-go/internal/verifh/engine"
	"github.com/enbility/spine-go/internal/verifh/world"
	"github.com/enbility/spine-go/model"
	"github.com/enbility/spine-go/spine"
	"github.com/enbility/spine-go/util"
)

// C14 — response and result callbacks fire exactly once for the right message.

type cbWorld struct {
	w    *world.World
	log  []string
	cbs  map[string]func(api.ResponseMessage) // "F1/a" -> function value (one value per name and feature)
	reg  map[string][]string                  // model: "F/ctr" -> callback names registered (returned nil)
	rres map[string][]string                  // model: F -> result callbacks
	gone map[string]bool                      // peers whose connection was removed
	last int                                  // counter of the last request sent by a reqcb operation (0: none)

	cacheInKey bool
}

//go:norace
func (c *cbWorld) add(s string) { c.log = append(c.log, s) }

//go:norace
func (c *cbWorld) take() []string { l := c.log; c.log = nil; sort.Strings(l); return l }

func (c *cbWorld) feat(f string) api.FeatureLocalInterface {
	if f == "F0" {
		return c.w.L.NodeManagement() // the node-management feature is a local feature like any other
	}
	e := uint(1)
	if f == "F2" {
		e = 2
	}
	return c.w.L.FeatureByAddress(world.FAddr(world.LocalAddr, []uint{e}, lLCClient))
}

func describe(kind, f, name string, m api.ResponseMessage) string {
	fr := "<nil>"
	if m.FeatureRemote != nil {
		fr = world.AddrStr(m.FeatureRemote.Address())
	}
	fl := "<nil>"
	if m.FeatureLocal != nil {
		fl = world.AddrStr(m.FeatureLocal.Address())
	}
	return fmt.Sprintf("%s %s/%s ref=%d from=%s local=%s data=%s", kind, f, name, m.MsgCounterReference, fr, fl, world.JSON(m.Data))
}

func newCBWorld() *cbWorld {
	c := &cbWorld{w: stdWorld(false, "A", "B"), cbs: map[string]func(api.ResponseMessage){}, reg: map[string][]string{}, rres: map[string][]string{}, gone: map[string]bool{}}
	for _, f := range []string{"F1", "F2", "F0"} {
		f := f
		// distinct function literals: distinct function values
		c.cbs[f+"/a"] = func(m api.ResponseMessage) { c.add(describe("resp", f, "a", m)) }
		c.cbs[f+"/b"] = func(m api.ResponseMessage) { c.add(describe("resp", f, "b", m)) }
		c.cbs[f+"/ra"] = func(m api.ResponseMessage) { c.add(describe("result", f, "ra", m)) }
		c.cbs[f+"/rb"] = func(m api.ResponseMessage) { c.add(describe("result", f, "rb", m)) }
		// two distinct result callbacks made by ONE function literal (closures sharing their code, like
		// method values of one method on two receivers): they are two callbacks
		for _, n := range []string{"rc", "rd"} {
			n := n
			c.cbs[f+"/"+n] = func(m api.ResponseMessage) { c.add(describe("result", f, n, m)) }
		}
	}
	return c
}

// apply: one operation; returns expected and observed invocation multisets.
func (c *cbWorld) apply(op string, judge bool) (viol []string, digest string, effect bool) {
	f := strings.Split(op, ":")
	var want []string
	switch f[0] {
	case "addcb":
		F, ctr, name := f[1], atoi(f[2]), f[3]
		err := c.feat(F).AddResponseCallback(model.MsgCounterType(ctr), c.cbs[F+"/"+name])
		key := fmt.Sprintf("%s/%d", F, ctr)
		dup := false
		for _, n := range c.reg[key] {
			dup = dup || n == name
		}
		if judge && dup != (err != nil) {
			viol = append(viol, fmt.Sprintf("registering a response callback: refusal expected=%v got error=%v | op=%s", dup, err != nil, op))
		}
		if err == nil {
			c.reg[key] = append(c.reg[key], name)
			effect = true
		}
		digest = fmt.Sprint("addcb:", err == nil)
	case "addres":
		F, name := f[1], f[2]
		c.feat(F).AddResultCallback(c.cbs[F+"/"+name])
		c.rres[F] = append(c.rres[F], name)
		effect = true
		digest = "addres"
	case "reqcb":
		// a real read request of the limit list to peer p's LoadControl server, with a response callback for
		// the counter the request got (both peers' connections count their messages from the same start, so
		// requests to A and to B normally carry EQUAL counters)
		F, p, name := f[1], f[2], f[3]
		if c.gone[p] {
			digest = "reqcb:gone"
			break
		}
		rf := c.w.Peers[p].Dev.FeatureByAddress(cliAddr(p, "e1f4", true))
		ctr, rerr := c.feat(F).RequestRemoteData(fnLimit, nil, nil, rf)
		if rerr != nil || ctr == nil {
			viol = append(viol, fmt.Sprintf("a read request to a connected peer failed | op=%s err=%v", op, rerr))
			break
		}
		c.last = int(*ctr)
		err := c.feat(F).AddResponseCallback(*ctr, c.cbs[F+"/"+name])
		key := fmt.Sprintf("%s/%d", F, *ctr)
		dup := false
		for _, n := range c.reg[key] {
			dup = dup || n == name
		}
		if judge && dup != (err != nil) {
			viol = append(viol, fmt.Sprintf("registering a response callback: refusal expected=%v got error=%v | op=%s", dup, err != nil, op))
		}
		if err == nil {
			c.reg[key] = append(c.reg[key], name)
		}
		effect = true
		digest = fmt.Sprint("reqcb:", err == nil)
	case "disc":
		// the connection of a peer is removed; nothing is said about callbacks, so every registered callback
		// still fires at the first accepted message referencing its counter (here: from the other peer)
		if !c.gone[f[1]] {
			c.gone[f[1]] = true
			c.w.L.RemoveRemoteDeviceConnection(f[1])
			effect = true
		}
		digest = "disc"
	case "nmreply":
		// a use-case data reply of peer p's node management to the local node management, referencing a counter
		F, refS, p := "F0", f[1], f[2]
		if c.gone[p] {
			digest = "nmreply:gone"
			break
		}
		pe := c.w.Peers[p]
		uc := &model.NodeManagementUseCaseDataType{}
		uc.AddUseCaseSupport(*world.FAddr("d"+p, []uint{1}, 0), model.UseCaseActorTypeCEM, ucNames["u1"], "1.0.0", "r", true, scenList("12"))
		d := pe.Datagram(pe.NM(), world.LocalNM(), model.CmdClassifierTypeReply, false, util.Ptr(model.MsgCounterType(atoi(refS))), model.CmdType{NodeManagementUseCaseData: uc})
		key := fmt.Sprintf("%s/%s", F, refS)
		for _, n := range c.reg[key] {
			want = append(want, fmt.Sprintf("resp %s/%s ref=%s from=%s local=%s data=%s", F, n, refS, world.AddrStr(pe.NM()), world.AddrStr(world.LocalNM()), world.JSON(uc)))
			effect = true
		}
		delete(c.reg, key)
		pe.Deliver(d)
		digest = fmt.Sprintf("nmreply:%d", len(want))
	case "reply", "result":
		F, refS, p, variant := f[1], f[2], f[3], f[4]
		if c.gone[p] {
			digest = f[0] + ":gone"
			break
		}
		if refS == "@" {
			if c.last == 0 {
				digest = f[0] + ":noreq"
				break
			}
			refS = fmt.Sprint(c.last)
		}
		pe := c.w.Peers[p]
		src := cliAddr(p, "e1f4", true)
		var ref *model.MsgCounterType
		if refS != "none" {
			ref = util.Ptr(model.MsgCounterType(atoi(refS)))
		}
		var cmd model.CmdType
		accepted := true
		var data any
		if f[0] == "reply" {
			if variant == "valid" {
				l := limitList(2, 1)
				cmd = model.CmdType{LoadControlLimitListData: l}
				data = l
			} else if variant == "partial" || variant == "delete" {
				// a reply restricted by a filter: the callbacks get the RECEIVED data, not what the cache of the remote
				// feature holds after the reply was merged into it
				l := &model.LoadControlLimitListDataType{LoadControlLimitData: []model.LoadControlLimitDataType{{LimitId: util.Ptr(model.LoadControlLimitIdType(2)), Value: model.NewScaledNumberType(5)}}}
				cmd = model.CmdType{Function: util.Ptr(fnLimit), Filter: []model.FilterType{*model.NewFilterTypePartial()}, LoadControlLimitListData: l}
				if variant == "delete" {
					l = &model.LoadControlLimitListDataType{}
					cmd = model.CmdType{Function: util.Ptr(fnLimit), LoadControlLimitListData: l, Filter: []model.FilterType{
						{CmdControl: &model.CmdControlType{Delete: &model.ElementTagType{}}, LoadControlLimitListDataSelectors: &model.LoadControlLimitListDataSelectorsType{LimitId: util.Ptr(model.LoadControlLimitIdType(1))}}}}
				}
				data = l
			} else {
				// a function the sending LoadControl feature does not have: the reply is rejected
				cmd = model.CmdType{MeasurementListData: &model.MeasurementListDataType{}}
				accepted = false
			}
		} else {
			en := model.ErrorNumberType(0)
			if variant == "err" {
				en = 7
			}
			rd := &model.ResultDataType{ErrorNumber: &en}
			cmd = model.CmdType{ResultData: rd}
			data = rd
		}
		cl := model.CmdClassifierTypeReply
		if f[0] == "result" {
			cl = model.CmdClassifierTypeResult
		}
		d := pe.Datagram(src, c.feat(F).Address(), cl, false, ref, cmd)
		if accepted && ref != nil {
			key := fmt.Sprintf("%s/%s", F, refS)
			for _, n := range c.reg[key] {
				want = append(want, fmt.Sprintf("resp %s/%s ref=%s from=%s local=%s data=%s", F, n, refS, world.AddrStr(src), world.AddrStr(c.feat(F).Address()), world.JSON(data)))
				effect = true
			}
			delete(c.reg, key)
			if f[0] == "result" {
				for _, n := range c.rres[F] {
					want = append(want, fmt.Sprintf("result %s/%s ref=%s from=%s local=%s data=%s", F, n, refS, world.AddrStr(src), world.AddrStr(c.feat(F).Address()), world.JSON(data)))
					effect = true
				}
			}
		}
		pe.Deliver(d)
		digest = fmt.Sprintf("%s:%d", f[0], len(want))
	}
	rt.WaitIdle()
	rt.JoinFinished()
	got := c.take()
	sort.Strings(want)
	if judge && strings.Join(got, "\n") != strings.Join(want, "\n") {
		viol = append(viol, fmt.Sprintf("callback invocations differ from the expectation | op=%s\n want=%v\n got=%v", op, want, got))
	}
	return
}

func (c *cbWorld) key() string {
	var parts []string
	for _, f := range []string{"F1", "F2", "F0"} {
		s := spine.VerifFeatureState(c.feat(f))
		parts = append(parts, f+":"+s[strings.Index(s, "cbs="):strings.Index(s, " subs=")])
	}
	// which names are registered matters for refusal: take it from the model (checked against behaviour above)
	var ks []string
	for k, v := range c.reg {
		ks = append(ks, k+"="+strings.Join(v, ","))
	}
	sort.Strings(ks)
	var rs []string
	for k, v := range c.rres {
		rs = append(rs, k+"="+strings.Join(v, ","))
	}
	sort.Strings(rs)
	// unanswered requests per connection (a repeated identical request is withheld and returns the earlier counter)
	var rq []string
	for _, p := range []string{"A", "B"} {
		if !c.gone[p] {
			rq = append(rq, fmt.Sprint(p, spine.VerifReqCache(c.w.Peers[p].Dev.Sender()), "next=", spine.VerifMsgNum(c.w.Peers[p].Dev.Sender())))
		}
	}
	if c.cacheInKey {
		// what the remote feature's cache holds (drivers whose replies carry filters)
		if d := c.w.L.RemoteDeviceForSki("A"); d != nil {
			if rf := d.FeatureByAddress(cliAddr("A", "e1f4", true)); rf != nil {
				parts = append(parts, "cacheA="+world.JSON(rf.DataCopy(fnLimit)))
			}
		}
	}
	return strings.Join(parts, " ") + " reg=" + strings.Join(ks, ";") + " res=" + strings.Join(rs, ";") + fmt.Sprintf(" gone=%v%v last=%d unanswered=%v", c.gone["A"], c.gone["B"], c.last, rq)
}

func c14Alphabet(thorough bool) []string {
	a := []string{"addcb:F1:1:a", "addcb:F1:1:b", "addcb:F1:2:a", "addcb:F2:1:a", "addres:F1:ra",
		"reply:F1:1:A:valid", "reply:F1:2:A:valid", "reply:F1:3:A:valid", "reply:F1:1:B:valid", "reply:F1:1:A:invalid", "reply:F2:1:A:valid",
		"result:F1:1:A:ok", "result:F1:1:B:err", "result:F1:2:A:err", "result:F2:1:A:ok", "result:F1:3:A:ok"}
	// callbacks of real requests to two peers (equal counters), connection removals in between
	a = append(a, "reqcb:F1:A:a", "reqcb:F1:B:b", "disc:A", "reply:F1:@:B:valid", "result:F1:@:A:ok", "addres:F1:rc", "addres:F1:rd")
	// callbacks on the node-management feature (replies to it take their own path through the stack)
	a = append(a, "addcb:F0:7:a", "nmreply:7:A", "nmreply:8:A", "result:F0:7:A:ok")
	if thorough {
		a = append(a, "addres:F1:rb", "addres:F2:ra", "disc:B", "reqcb:F2:A:a", "reply:F1:@:A:valid", "reply:F2:@:B:valid", "addcb:F2:2:b", "reply:F2:2:B:valid", "result:F2:2:B:ok", "reply:F1:none:A:valid", "result:F1:none:A:ok")
	}
	return a
}

func c14Drivers(thorough bool) []*engine.HDriver {
	alpha := c14Alphabet(thorough)
	return []*engine.HDriver{{Name: "callbacks", Alphabet: alpha,
		// result callbacks are never removed: bound their number to keep the state space finite
		Ops: func(hist []string) []string {
			n := 0
			for _, h := range hist {
				if strings.HasPrefix(h, "addres") {
					n++
				}
			}
			if n < 2 {
				return alpha
			}
			var out []string
			for _, a := range alpha {
				if !strings.HasPrefix(a, "addres") {
					out = append(out, a)
				}
			}
			return out
		},
		Step: func(hist []string, op string) engine.HStep {
			c := newCBWorld()
			rt.WaitIdle()
			for _, h := range hist {
				c.apply(h, false)
			}
			var st engine.HStep
			if op != "" {
				st.Violations, st.Digest, st.Effect = c.apply(op, true)
			}
			st.Key = c.key()
			return st
		}},
		// replies restricted by a filter on top of a cache that already holds data
		{Name: "callbacks-data-of-filtered-replies", Alphabet: []string{"addcb:F1:1:a", "addcb:F1:2:b", "reply:F1:1:A:valid", "reply:F1:3:A:valid", "reply:F1:1:A:partial", "reply:F1:2:A:partial",
			"reply:F1:3:A:partial", "reply:F1:1:A:delete", "reply:F1:2:A:delete", "reply:F1:3:A:delete"},
			Step: func(hist []string, op string) engine.HStep {
				c := newCBWorld()
				c.cacheInKey = true
				rt.WaitIdle()
				for _, h := range hist {
					c.apply(h, false)
				}
				var st engine.HStep
				if op != "" {
					st.Violations, st.Digest, st.Effect = c.apply(op, true)
				}
				st.Key = c.key()
				return st
			}}}
}

func c14Scenarios() []*engine.SScenario {
	mk := func(name string, threads func(c *cbWorld) []func(), judge func(c *cbWorld, log []string, got []string) []string) *engine.SScenario {
		return &engine.SScenario{Name: name, Run: func(cfg rt.Config) rt.Outcome {
			var viol []string
			var dig string
			res := rt.Execute(cfg, func() {
				c := newCBWorld()
				rt.WaitIdle()
				ths := threads(c)
				rt.BeginExplore()
				for _, t := range ths {
					rt.Go(t)
				}
				rt.WaitIdle()
				rt.JoinFinished()
				got := c.take()
				viol = judge(c, rt.LogSoFar(), got)
				var short []string
				for _, g := range got {
					short = append(short, g[:strings.Index(g, " from=")])
				}
				dig = strings.Join(short, ";") + " | " + c.key()
			})
			return rt.Outcome{Res: res, Violations: append(viol, panicsAndDeadlocks(res)...), Digest: dig}
		}}
	}
	deliver := func(c *cbWorld, tag, p, kind string, ref int) func() {
		return func() {
			pe := c.w.Peers[p]
			var cmd model.CmdType
			cl := model.CmdClassifierTypeReply
			if kind == "reply" {
				cmd = model.CmdType{LoadControlLimitListData: limitList(2, 1)}
			} else {
				cl = model.CmdClassifierTypeResult
				cmd = model.CmdType{ResultData: &model.ResultDataType{ErrorNumber: util.Ptr(model.ErrorNumberType(0))}}
			}
			d := pe.Datagram(cliAddr(p, "e1f4", true), c.feat("F1").Address(), cl, false, util.Ptr(model.MsgCounterType(ref)), cmd)
			rt.Mark("dc " + tag)
			pe.Deliver(d)
			rt.Mark("dr " + tag)
		}
	}
	pos := func(log []string, s string) int {
		for i, l := range log {
			if l == s {
				return i
			}
		}
		return 1 << 30
	}
	count := func(got []string, prefix string) int {
		n := 0
		for _, g := range got {
			if strings.HasPrefix(g, prefix) {
				n++
			}
		}
		return n
	}
	return []*engine.SScenario{
		mk("registration | matching reply", func(c *cbWorld) []func() {
			return []func(){func() {
				rt.Mark("rc")
				_ = c.feat("F1").AddResponseCallback(1, c.cbs["F1/a"])
				rt.Mark("rr")
			}, deliver(c, "1", "A", "reply", 1)}
		}, func(c *cbWorld, log, got []string) []string {
			var v []string
			n := count(got, "resp F1/a ref=1")
			if n > 1 {
				v = append(v, "a response callback was invoked more than once")
			}
			if pos(log, "rr") < pos(log, "dc 1") && n != 1 {
				v = append(v, "a callback registered before the reply arrived was not invoked exactly once")
			}
			st := spine.VerifFeatureState(c.feat("F1"))
			if n == 1 && strings.Contains(st, "cbs=[1:") {
				v = append(v, "an invoked callback is still registered")
			}
			if n == 0 && !strings.Contains(st, "cbs=[1:1]") {
				v = append(v, "a callback that was not invoked is no longer registered")
			}
			return v
		}),
		mk("two matching replies on two connections", func(c *cbWorld) []func() {
			_ = c.feat("F1").AddResponseCallback(1, c.cbs["F1/a"])
			_ = c.feat("F1").AddResponseCallback(1, c.cbs["F1/b"])
			_ = c.feat("F1").AddResponseCallback(2, c.cbs["F1/a"])
			return []func(){deliver(c, "1", "A", "reply", 1), deliver(c, "2", "B", "result", 1)}
		}, func(c *cbWorld, log, got []string) []string {
			var v []string
			for _, n := range []string{"a", "b"} {
				if k := count(got, "resp F1/"+n+" ref=1"); k != 1 {
					v = append(v, fmt.Sprintf("a registered response callback was invoked %d times for two matching messages", k))
				}
			}
			if count(got, "resp F1/a ref=2") != 0 {
				v = append(v, "a callback was invoked for another reference")
			}
			return v
		}),
		mk("registration of two callbacks | reply | result with result callback", func(c *cbWorld) []func() {
			c.feat("F1").AddResultCallback(c.cbs["F1/ra"])
			return []func(){func() {
				_ = c.feat("F1").AddResponseCallback(1, c.cbs["F1/a"])
				_ = c.feat("F1").AddResponseCallback(1, c.cbs["F1/b"])
			}, deliver(c, "1", "A", "reply", 1), deliver(c, "2", "B", "result", 1)}
		}, func(c *cbWorld, log, got []string) []string {
			var v []string
			for _, n := range []string{"a", "b"} {
				if k := count(got, "resp F1/"+n+" ref=1"); k > 1 {
					v = append(v, fmt.Sprintf("a response callback was invoked %d times", k))
				}
			}
			if k := count(got, "result F1/ra ref=1"); k != 1 {
				v = append(v, fmt.Sprintf("a result callback was invoked %d times for one result message", k))
			}
			return v
		}),
	}
}

func init() {
	engine.Register(&engine.Check{
		ID:        "C14",
		NeedsRace: true,
		Drivers:   func(c *engine.Ctx) []*engine.HDriver { return c14Drivers(c.Thorough) },
		Scenarios: func(c *engine.Ctx) []*engine.SScenario { return c14Scenarios() },
		Run: func(c *engine.Ctx) *engine.Report {
			rep := &engine.Report{Level: "model_checking", Coverage: map[string]any{}}
			for _, d := range c14Drivers(c.Thorough) {
				depth := 4
				if c.Thorough {
					depth = 6
				}
				st := engine.RunHistories(c, d, depth, rep)
				engine.AddHCoverage(rep, d.Name, st, len(d.Alphabet))
			}
			mergeS(c, rep, c14Scenarios(), engine.SPlan{Bounds: boundsFor(c, []int{0, 1, 2}, []int{0, 1, 2, 3}), Race: true, RaceMaxBound: 1,
				RaceFuncs: []string{"AddResponseCallback", "processResponseMsgCallbacks", "AddResultCallback", "processResultCallbacks"}})
			return rep
		},
	})
}
