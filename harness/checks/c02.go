package checks

import (
	"encoding/json"
	"fmt"
	"reflect"
	"sort"
	"strings"

	"github.com/enbility/spine-go/internal/verifh/engine"
	"github.com/enbility/spine-go/internal/verifh/refl"
	"github.com/enbility/spine-go/internal/verifh/world"
	"github.com/enbility/spine-go/internal/verifrt/vtime"
	"github.com/enbility/spine-go/model"
)

// C02 — replicated function data follows the SPINE restricted-exchange update rules.

type updCase struct {
	items []itemSpec
	fs    filterSpec
}

func (u updCase) String() string { return u.fs.String() + " " + specsStr(u.items) }

func listsOver(ids []int, pays []string) [][]itemSpec {
	out := [][]itemSpec{nil}
	for _, id := range ids {
		var nx [][]itemSpec
		for _, l := range out {
			nx = append(nx, l)
			for _, p := range pays {
				nx = append(nx, append(append([]itemSpec{}, l...), itemSpec{id: id, pay: p}))
			}
		}
		out = nx
	}
	return out
}

func (sp *listSpec) menu(ids []int) []updCase {
	var m []updCase
	if sp.keyKind == "uint" || sp.keyKind == "string" {
		for _, l := range listsOver(ids, []string{"2-", "-2", "11"}) {
			m = append(m, updCase{l, filterSpec{}}, updCase{l, filterSpec{partial: true}})
		}
	} else {
		m = append(m, updCase{nil, filterSpec{}}, updCase{[]itemSpec{{pay: "11"}}, filterSpec{}}, updCase{[]itemSpec{{pay: "2-"}, {pay: "-2"}}, filterSpec{}})
	}
	if sp.keyKind == "none" {
		return m // a type without any identifier: only full replacement is defined
	}
	for _, p := range []string{"2-", "-2"} {
		m = append(m, updCase{[]itemSpec{{id: 0, pay: p}}, filterSpec{partial: true}})
	}
	m = append(m, updCase{[]itemSpec{{id: 0, pay: "2-"}}, filterSpec{}}) // filter-less with an identifier-less item
	if sp.keyKind != "uint" && sp.keyKind != "string" {
		return m
	}
	for _, id := range ids {
		for _, p := range []string{"2-", "-2"} {
			m = append(m, updCase{[]itemSpec{{id: 0, pay: p}}, filterSpec{partial: true, partialSel: id}})
		}
		m = append(m, updCase{[]itemSpec{{id: id, pay: "22"}}, filterSpec{partial: true, partialSel: id}})
		m = append(m, updCase{nil, filterSpec{del: true, delSel: id}})
		m = append(m, updCase{nil, filterSpec{del: true, delSel: id, delElements: true}})
	}
	m = append(m, updCase{[]itemSpec{{id: 0, pay: "2-"}}, filterSpec{del: true, delSel: ids[0], partial: true, partialSel: ids[len(ids)-1]}},
		updCase{[]itemSpec{{id: 0, pay: "-2"}}, filterSpec{del: true, delSel: ids[len(ids)-1], delElements: true, partial: true, partialSel: ids[0]}})
	m = append(m, updCase{nil, filterSpec{partial: true, partialSel: ids[0]}}) // selector with an empty update list
	m = append(m, updCase{nil, filterSpec{del: true, delSelPay: true}})
	m = append(m, updCase{nil, filterSpec{del: true, delElements: true}})
	for _, l := range [][]itemSpec{{{id: ids[0], pay: "2-"}}, {{id: ids[len(ids)-1], pay: "22"}}, {{id: ids[0], pay: "-2"}, {id: ids[len(ids)-1], pay: "2-"}}} {
		m = append(m, updCase{l, filterSpec{del: true, delSel: ids[0], partial: true}})
	}
	return m
}

// install puts the record list into a fresh list value (deep copy through the generator).
func (sp *listSpec) fromRecs(l []rec) any {
	v := reflect.New(sp.typ)
	s := reflect.MakeSlice(sp.typ.Field(sp.listField).Type, 0, len(l))
	for _, r := range l {
		item := reflect.New(sp.item)
		for name, js := range r {
			f := item.Elem().FieldByName(name)
			p := reflect.New(f.Type())
			if err := json.Unmarshal([]byte(js), p.Interface()); err != nil {
				panic(err)
			}
			f.Set(p.Elem())
		}
		s = reflect.Append(s, item.Elem())
	}
	v.Elem().Field(sp.listField).Set(s)
	return v.Interface()
}

func (sp *listSpec) sameList(got []rec, want []rec) bool {
	if sp.keyKind == "uint" || sp.keyKind == "none" || sp.keyKind == "other" {
		return recsStr(got) == recsStr(want)
	}
	a, b := cloneRecs(got), cloneRecs(want)
	srt := func(l []rec) { sort.Slice(l, func(i, j int) bool { return recsStr(l[i:i+1]) < recsStr(l[j:j+1]) }) }
	srt(a)
	srt(b)
	return recsStr(a) == recsStr(b)
}

func guard(f func()) (p any) {
	defer func() { p = recover() }()
	f()
	return nil
}

// c02Type explores one list type to closure (or depth) and judges every transition.
func c02Type(sp *listSpec, ids []int, maxDepth int, r *engine.IResult) {
	if len(sp.keys) > 1 && sp.keyKind == "uint" {
		// multi-key identifiers: (.,1,2) and (.,2,1) collide in every single key comparison
		if len(ids) == 2 {
			ids = []int{2, 3}
		} else {
			ids = []int{1, 2, 3, 4}
		}
	}
	menu := sp.menu(ids)
	seen := map[string]bool{"[]": true}
	frontier := [][]rec{nil}
	feats := featuresFor(sp)
	fail := func(clause string, u updCase, detail string) {
		r.NFails++
		key := fmt.Sprintf("%s | type=%s shape=%s", clause, sp.name, u.fs.String())
		for _, f := range r.Fails {
			if f.Key == key {
				return
			}
		}
		r.Fails = append(r.Fails, engine.IFail{Key: key, Msg: detail, Input: sp.name + " " + u.String()})
	}
	for depth := 0; depth < maxDepth && len(frontier) > 0; depth++ {
		var next [][]rec
		for _, state := range frontier {
			for _, u := range menu {
				fp, fd, ok := sp.filters(u.fs)
				if !ok {
					continue
				}
				upd := sp.recs(u.items)
				want, known := sp.foldUpdate(state, upd, u.fs)
				if !known {
					continue
				}
				r.Evals++
				if recsStr(want) != recsStr(state) {
					r.Nontrivial++
				}
				ctx := fmt.Sprintf("existing=%s update=%s", recsStr(state), u)
				// (a) the per-type UpdateList
				var ret any
				var success bool
				holder := sp.fromRecs(state)
				if p := guard(func() {
					ret, success = holder.(model.Updater).UpdateList(false, true, sp.list(u.items), fp, fd)
				}); p != nil {
					fail("UpdateList panics", u, fmt.Sprintf("%v | %s", p, ctx))
					continue
				}
				good := true
				if u.fs.partial || u.fs.del { // the filter-less case never reaches the per-type method through the API
					if !success {
						fail("a local update is reported as failed", u, ctx)
						good = false
					} else {
						if got, ok := sp.itemsOf(ret); !ok || !sp.sameList(got, want) {
							fail("the value returned by UpdateList differs from the fold of the update rules", u, fmt.Sprintf("%s\n want=%s\n got=%s", ctx, recsStr(want), recsStr(got)))
							good = false
						}
						if got, _ := sp.itemsOf(holder); !sp.sameList(got, want) {
							fail("the list persisted by UpdateList differs from the fold of the update rules", u, fmt.Sprintf("%s\n want=%s\n got=%s", ctx, recsStr(want), recsStr(got)))
							good = false
						}
					}
				}
				// (b) reply/notify path and (c) local API
				if feats != nil {
					for _, path := range []string{"remote", "remote-nopersist", "local"} {
						var got any
						var errT *model.ErrorType
						var stored any
						if p := guard(func() {
							switch path {
							case "remote", "remote-nopersist":
								feats.remote.UpdateData(true, sp.fn, sp.fromRecs(state), nil, nil)
								updObj := sp.list(u.items)
								updPhoto := world.JSON(updObj)
								got, errT = feats.remote.UpdateData(path == "remote", sp.fn, updObj, fp, fd)
								stored = feats.remote.DataCopy(sp.fn)
								if now := world.JSON(updObj); now != updPhoto {
									fail("applying an update modified the update data handed to the API (applying the same object again is then another update)", u, fmt.Sprintf("%s\n before=%s\n after=%s", ctx, updPhoto, now))
									good = false
								}
							case "local":
								feats.local.UpdateData(sp.fn, sp.fromRecs(state), nil, nil)
								updObj := sp.list(u.items)
								updPhoto := world.JSON(updObj)
								errT = feats.local.UpdateData(sp.fn, updObj, fp, fd)
								stored = feats.local.DataCopy(sp.fn)
								// "the same update" can only be applied again if applying it leaves it as it was
								if now := world.JSON(updObj); now != updPhoto {
									fail("applying an update modified the update data handed to the API (applying the same object again is then another update)", u, fmt.Sprintf("%s\n before=%s\n after=%s", ctx, updPhoto, now))
									good = false
								}
							}
						}); p != nil {
							fail("UpdateData panics ("+path+")", u, fmt.Sprintf("%v | %s", p, ctx))
							good = false
							continue
						}
						if errT != nil {
							fail("a well-formed update is rejected ("+path+")", u, ctx+" | "+errT.String())
							good = false
							continue
						}
						st, _ := sp.itemsOf(stored)
						wantStored := want
						if path == "remote-nopersist" {
							wantStored = state
						}
						if !sp.sameList(st, wantStored) {
							fail("the data the API returns after the update differs from the fold of the update rules ("+path+")", u, fmt.Sprintf("%s\n want=%s\n got=%s", ctx, recsStr(wantStored), recsStr(st)))
							good = false
						}
						// (the value a filter-less, non-persisting call returns is not covered by the statement)
						if path != "local" && !(path == "remote-nopersist" && !u.fs.partial && !u.fs.del) {
							if g, ok := sp.itemsOf(got); !ok || !sp.sameList(g, want) {
								fail("the value returned by UpdateData differs from the fold of the update rules ("+path+")", u, fmt.Sprintf("%s\n want=%s\n got=%v", ctx, recsStr(want), got))
								good = false
							}
						}
						// the same update when the existing list was stored in another order (a full update stores the list as
						// it is given — that alone is left open — but a later merge by identifier that changes the data must
						// leave it ordered by identifier)
						// (judged for the merge by identifier only; whether an update that merely selects, deletes or copies
						// into the existing items also re-orders a list that was given unordered is left open, like the
						// order after the unordered full update itself)
						merges := u.fs.partial && !u.fs.del && u.fs.partialSel == 0 && len(u.items) > 0
						for _, it := range u.items {
							merges = merges && it.id != 0
						}
						for _, rr := range state {
							_, full := sp.keyOf(rr)
							merges = merges && full // (where an item without identifier belongs in the order is not defined)
						}
						if merges && len(state) >= 2 && recsStr(want) != recsStr(state) && path != "remote-nopersist" {
							rev := make([]rec, len(state))
							for i := range state {
								rev[len(state)-1-i] = state[i]
							}
							var stored2 any
							if p := guard(func() {
								if path == "remote" {
									feats.remote.UpdateData(true, sp.fn, sp.fromRecs(rev), nil, nil)
									feats.remote.UpdateData(true, sp.fn, sp.list(u.items), fp, fd)
									stored2 = feats.remote.DataCopy(sp.fn)
								} else {
									feats.local.UpdateData(sp.fn, sp.fromRecs(rev), nil, nil)
									feats.local.UpdateData(sp.fn, sp.list(u.items), fp, fd)
									stored2 = feats.local.DataCopy(sp.fn)
								}
							}); p == nil {
								if st2, _ := sp.itemsOf(stored2); !sp.sameList(st2, want) {
									fail("after an update of a list that was stored in another order the data differs from the fold of the update rules / is not ordered by identifier ("+path+")", u, fmt.Sprintf("%s (stored in reverse order)\n want=%s\n got=%s", ctx, recsStr(want), recsStr(st2)))
									good = false
								}
							}
						}
						// applying the same update a second time changes nothing
						if path == "local" {
							if p := guard(func() {
								feats.local.UpdateData(sp.fn, sp.list(u.items), fp, fd)
								stored = feats.local.DataCopy(sp.fn)
							}); p == nil {
								st2, _ := sp.itemsOf(stored)
								if again, _ := sp.foldUpdate(want, upd, u.fs); recsStr(again) == recsStr(want) && !sp.sameList(st2, want) {
									fail("applying the same update a second time changes the data", u, fmt.Sprintf("%s\n after first=%s\n after second=%s", ctx, recsStr(want), recsStr(st2)))
									good = false
								}
							}
						}
					}
				}
				// at most one item per identifier, ordered by numeric identifier (expectation side is by construction)
				if good {
					k := recsStr(want)
					if !seen[k] {
						seen[k] = true
						next = append(next, want)
						if len(r.Samples) < 2 && len(want) > 1 {
							r.Samples = append(r.Samples, fmt.Sprintf("%s: %s -> %s", sp.name, ctx, k))
						}
					}
				}
			}
		}
		frontier = next
	}
	r.States += int64(len(seen))
}


// c02Unmentioned: "a partial update keeps the items and fields it does not mention", literally: an item the update does
// not address is afterwards what it was before field by field, in whatever textual form the application stored it (a
// relative end time stays relative, a time stays in the form it was given). The existing lists are stored through the
// API as built (no encoding round trip) and every field of the unaddressed items is populated.
func c02Unmentioned(sp *listSpec, r *engine.IResult) {
	feats := featuresFor(sp)
	if feats == nil || sp.keyKind != "uint" {
		return
	}
	ids := []int{1, 2, 3}
	if len(sp.keys) > 1 {
		ids = []int{2, 3, 4}
	}
	full := func(id, seed int) reflect.Value {
		it := reflect.New(sp.item).Elem()
		it.Set(refl.Fill(sp.item, 2, seed))
		if sp.wcheck >= 0 {
			it.Field(sp.wcheck).Set(reflect.Zero(sp.item.Field(sp.wcheck).Type))
		}
		sp.setKey(it, id)
		return it
	}
	existing := func() any {
		l := reflect.New(sp.typ)
		sl := reflect.MakeSlice(sp.typ.Field(sp.listField).Type, 0, 3)
		sl = reflect.Append(sl, sp.build(itemSpec{id: ids[0], pay: "11"}), full(ids[1], 2), full(ids[2], 3))
		l.Elem().Field(sp.listField).Set(sl)
		return l.Interface()
	}
	keyStr := func(it reflect.Value) string {
		var k []string
		for _, i := range sp.keys {
			k = append(k, world.JSON(it.Field(i).Interface()))
		}
		return strings.Join(k, ",")
	}
	updates := []updCase{
		{[]itemSpec{{id: ids[0], pay: "2-"}}, filterSpec{partial: true}},
		{[]itemSpec{{id: ids[0], pay: "-2"}}, filterSpec{partial: true}},
		{[]itemSpec{{id: 0, pay: "2-"}}, filterSpec{partial: true, partialSel: ids[0]}},
		{nil, filterSpec{del: true, delSel: ids[0]}},
		{nil, filterSpec{del: true, delSel: ids[0], delElements: true}},
		{[]itemSpec{{id: ids[0], pay: "22"}}, filterSpec{del: true, delSel: ids[0], partial: true}},
	}
	for _, u := range updates {
		fp, fd, ok := sp.filters(u.fs)
		if !ok {
			continue
		}
		for _, path := range []string{"local", "remote"} {
			r.Evals++
			r.Nontrivial++
			ex := existing()
			ref := refl.Clone(ex)
			var stored any
			if p := guard(func() {
				if path == "local" {
					feats.local.UpdateData(sp.fn, ex, nil, nil)
					feats.local.UpdateData(sp.fn, sp.list(u.items), fp, fd)
					stored = feats.local.DataCopy(sp.fn)
				} else {
					feats.remote.UpdateData(true, sp.fn, ex, nil, nil)
					feats.remote.UpdateData(true, sp.fn, sp.list(u.items), fp, fd)
					stored = feats.remote.DataCopy(sp.fn)
				}
			}); p != nil || stored == nil || reflect.ValueOf(stored).IsNil() {
				continue // panics and rejected updates are judged by the closure search
			}
			was := reflect.ValueOf(ref).Elem().Field(sp.listField)
			now := reflect.ValueOf(stored).Elem().Field(sp.listField)
			for i := 1; i < was.Len(); i++ { // the two items the update does not address
				found := false
				for j := 0; j < now.Len(); j++ {
					if keyStr(now.Index(j)) != keyStr(was.Index(i)) {
						continue
					}
					found = true
					if !reflect.DeepEqual(now.Index(j).Interface(), was.Index(i).Interface()) {
						r.NFails++
						key := fmt.Sprintf("an item the update does not address is not what it was field by field (%s) | type=%s shape=%s", path, sp.name, u.fs.String())
						dup := false
						for _, f := range r.Fails {
							dup = dup || f.Key == key
						}
						if !dup {
							r.Fails = append(r.Fails, engine.IFail{Key: key, Input: sp.name + " " + u.String(),
								Msg: fmt.Sprintf("update=%s\n was=%.300v\n now=%.300v", u, refl.Plain(was.Index(i).Interface()), refl.Plain(now.Index(j).Interface()))})
						}
					}
				}
				_ = found // (a missing item is judged by the closure search)
			}
		}
	}
}

func c02Families(thorough bool) []*engine.IFamily {
	specs := listSpecs()
	ids := []int{1, 2}
	depth := 64 // closure
	if thorough {
		ids = []int{1, 2, 3}
		depth = 3
	}
	var names []string
	for _, sp := range specs {
		names = append(names, sp.name)
	}
	return []*engine.IFamily{{Name: "update-rules", Chunks: len(specs),
		Rule: fmt.Sprintf("every type implementing model.Updater (%d, discovered from the working tree) x breadth-first closure over list states (identifiers %v, two payload fields with values nil/v1/v2) x update menu {full, partial, identifier-less partial, partial+selector, selector with empty list, delete+selector (by id, by payload), delete+elements, delete+selector+elements, delete+partial}; each transition through the per-type UpdateList, FeatureRemote.UpdateData (persist and not) and FeatureLocal.UpdateData and compared with an independent fold; non-trivial: the update changes the list", len(specs), ids),
		Run: func(chunk int) engine.IResult {
			var r engine.IResult
			now := staticNow
			vtime.StaticNow = &now // relative end times are canonicalised through JSON: freeze the clock
			defer func() { vtime.StaticNow = nil }()
			c02Type(specs[chunk], ids, depth, &r)
			return r
		}}, {Name: "unmentioned-items-field-by-field", Chunks: len(specs),
		Rule: "every Updater type with numeric identifiers reachable through a feature x {merge by identifier, identifier-less partial with selector, delete by selector, delete of elements by selector, delete combined with partial}, all addressing item 1 of a three-item list that was stored through the API as built (every field of items 2 and 3 populated, relative and absolute end times) x {FeatureLocal.UpdateData, FeatureRemote.UpdateData}: items 2 and 3 of DataCopy are deep-equal (reflect.DeepEqual against a reflective clone taken before) to what was stored; non-trivial: all",
		Run: func(chunk int) engine.IResult {
			var r engine.IResult
			now := staticNow
			vtime.StaticNow = &now
			defer func() { vtime.StaticNow = nil }()
			c02Unmentioned(specs[chunk], &r)
			return r
		}}}
}

func init() {
	engine.Register(&engine.Check{
		ID:        "C02",
		Families:  func(c *engine.Ctx) []*engine.IFamily { return c02Families(c.Thorough) },
		Scenarios: func(c *engine.Ctx) []*engine.SScenario { return updateLinScenarios(false, c.Thorough) },
		Run: func(c *engine.Ctx) *engine.Report {
			rep := &engine.Report{Level: "model_checking", Coverage: map[string]any{}}
			specs := listSpecs()
			kinds := map[string]int{}
			withFn := 0
			for _, sp := range specs {
				kinds[sp.keyKind]++
				if sp.hasFn {
					withFn++
				}
			}
			rep.Coverage["updater_types"] = len(specs)
			rep.Coverage["updater_types_by_identifier_kind"] = kinds
			rep.Coverage["updater_types_reachable_through_a_feature"] = withFn
			engine.RunFamilies(c, c02Families(c.Thorough), rep)
			ev, _ := rep.Coverage["evaluations"].(int64)
			nt, _ := rep.Coverage["distinct_nontrivial"].(int64)
			_ = nt
			cs, _ := rep.Coverage["closure_states"].(int64)
			rep.Coverage["states"] = int(cs)
			rep.Coverage["transitions"] = int(ev)
			rep.Coverage["traces_validated_against_impl"] = int(ev)
			// updates applied from several goroutines: the stored data is the fold of the updates in some order
			mergeS(c, rep, updateLinScenarios(false, c.Thorough), engine.SPlan{Bounds: boundsFor(c, []int{0, 1, 2}, []int{0, 1, 2, 3, -1})})
			rep.Assumptions = []string{"don't-care zones (not judged): update lists repeating an identifier or giving part of a multi-key identifier, selectors matching several items, elements naming a key field; types whose identifier is neither numeric nor a string get only the filter-less and identifier-less shapes; string identifiers are compared without order"}
			_ = strings.Join
			return rep
		},
	})
}
