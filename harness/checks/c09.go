package checks

import (
	"encoding/json"
	"fmt"
	"sort"

	rt "github.com/enbility/spine-go/internal/verifrt"

	"github.com/enbility/spine-go/internal/verifh/engine"
	"github.com/enbility/spine-go/internal/verifh/world"
	"github.com/enbility/spine-go/model"
)

// C09 — bindings: exact registry with at most one binding per server feature.

func c09Scenarios() []*engine.SScenario {
	lc := model.FeatureTypeTypeLoadControl
	srv := func(e uint) *model.FeatureAddressType { return world.FAddr(world.LocalAddr, []uint{e}, lLCServer) }
	// oracle shared by the scenarios: per server feature at most one binding; the
	// number of success results equals the number of registry entries created.
	judge := func(w *world.World, m world.Mark, res *rt.Result, reqs map[string][]uint64, removed int) ([]string, string) {
		v := panicsAndDeadlocks(res)
		outs := w.Since(m)
		okTotal := 0
		var dig []string
		for conn, ctrs := range reqs {
			for _, c := range ctrs {
				ok, bad := countResults(outs, conn, c)
				if ok+bad != 1 {
					v = append(v, fmt.Sprintf("binding call answered %d times | conn=%s ctr=%d ok=%d err=%d", ok+bad, conn, c, ok, bad))
				}
				okTotal += ok
				dig = append(dig, fmt.Sprintf("%s#%d:%d/%d", conn, c, ok, bad))
			}
		}
		entries := 0
		for _, e := range []uint{1, 2} {
			n := len(w.L.BindingManager().BindingsOnFeature(*srv(e)))
			entries += n
			if n > 1 {
				v = append(v, fmt.Sprintf("more than one binding on a server feature | feature=%s n=%d", world.AddrStr(srv(e)), n))
			}
			dig = append(dig, fmt.Sprintf("e%d=%d", e, n))
		}
		if okTotal-removed != entries && removed >= 0 {
			v = append(v, fmt.Sprintf("success results and registry entries differ | granted=%d removed=%d entries=%d", okTotal, removed, entries))
		}
		ids := map[uint64]bool{}
		for _, p := range w.Peers {
			for _, b := range w.L.BindingManager().Bindings(p.Dev) {
				if ids[b.Id] {
					v = append(v, "duplicate binding id")
				}
				ids[b.Id] = true
			}
		}
		sort.Strings(dig)
		return v, fmt.Sprint(dig)
	}
	two := &engine.SScenario{Name: "two-peers-bind-same-feature", Run: func(cfg rt.Config) rt.Outcome {
		var viol []string
		var dig string
		res := rt.Execute(cfg, func() {
			w := stdWorld(false, "A", "B")
			a, b := w.Peers["A"], w.Peers["B"]
			da := a.BindCall(world.FAddr("dA", []uint{1}, 1), srv(1), lc)
			db := b.BindCall(world.FAddr("dB", []uint{1}, 1), srv(1), lc)
			m := w.Mark()
			rt.BeginExplore()
			rt.Go(func() { a.Deliver(da) })
			rt.Go(func() { b.Deliver(db) })
			rt.WaitIdle()
			rt.JoinFinished()
			viol, dig = judge(w, m, nil2(res0), map[string][]uint64{"A": {uint64(*da.Header.MsgCounter)}, "B": {uint64(*db.Header.MsgCounter)}}, 0)
		})
		return rt.Outcome{Res: res, Violations: append(viol, panicsAndDeadlocks(res)...), Digest: dig}
	}}
	three := &engine.SScenario{Name: "unbind-rebind-vs-bind", Run: func(cfg rt.Config) rt.Outcome {
		var viol []string
		var dig string
		res := rt.Execute(cfg, func() {
			w := stdWorld(false, "A", "B")
			a, b := w.Peers["A"], w.Peers["B"]
			a.Deliver(a.BindCall(world.FAddr("dA", []uint{1}, 1), srv(1), lc))
			du := a.UnbindCall(world.FAddr("dA", []uint{1}, 1), srv(1))
			da := a.BindCall(world.FAddr("dA", []uint{1}, 2), srv(1), lc)
			db := b.BindCall(world.FAddr("dB", []uint{1}, 1), srv(1), lc)
			m := w.Mark()
			rt.BeginExplore()
			rt.Go(func() { a.Deliver(du); a.Deliver(da) })
			rt.Go(func() { b.Deliver(db) })
			rt.WaitIdle()
			rt.JoinFinished()
			// one entry existed before the mark and the unbind removes it
			outs := w.Since(m)
			okU, _ := countResults(outs, "A", uint64(*du.Header.MsgCounter))
			viol, dig = judge(w, m, nil2(res0), map[string][]uint64{"A": {uint64(*da.Header.MsgCounter)}, "B": {uint64(*db.Header.MsgCounter)}}, okU-1)
			dig += fmt.Sprint(" unbind=", okU)
		})
		return rt.Outcome{Res: res, Violations: append(viol, panicsAndDeadlocks(res)...), Digest: dig}
	}}
	twoFeat := &engine.SScenario{Name: "one-client-two-features-vs-other-peer", Run: func(cfg rt.Config) rt.Outcome {
		var viol []string
		var dig string
		res := rt.Execute(cfg, func() {
			w := stdWorld(false, "A", "B")
			a, b := w.Peers["A"], w.Peers["B"]
			d1 := a.BindCall(world.FAddr("dA", []uint{1}, 1), srv(1), lc)
			d2 := a.BindCall(world.FAddr("dA", []uint{1}, 1), srv(2), lc)
			db := b.BindCall(world.FAddr("dB", []uint{1}, 1), srv(2), lc)
			m := w.Mark()
			rt.BeginExplore()
			rt.Go(func() { a.Deliver(d1); a.Deliver(d2) })
			rt.Go(func() { b.Deliver(db) })
			rt.WaitIdle()
			rt.JoinFinished()
			viol, dig = judge(w, m, nil2(res0), map[string][]uint64{"A": {uint64(*d1.Header.MsgCounter), uint64(*d2.Header.MsgCounter)}, "B": {uint64(*db.Header.MsgCounter)}}, 0)
		})
		return rt.Outcome{Res: res, Violations: append(viol, panicsAndDeadlocks(res)...), Digest: dig}
	}}
	return []*engine.SScenario{two, three, twoFeat}
}

var res0 = &rt.Result{}

func nil2(r *rt.Result) *rt.Result { return r }

func init() {
	engine.Register(&engine.Check{
		ID:        "C09",
		NeedsRace: true,
		Run: func(c *engine.Ctx) *engine.Report {
			rep := &engine.Report{Level: "model_checking", Coverage: map[string]any{}}
			plan := engine.SPlan{Bounds: []int{0, 1, 2}, Race: true, RaceFuncs: []string{"BindingManager"}}
			if c.Thorough {
				plan.Bounds = []int{0, 1, 2, 3, -1}
			}
			engine.RunSchedules(c, c09Scenarios(), plan, rep)
			rep.Assumptions = []string{"sequentially consistent interleavings of synchronisation operations; data races are reported separately by the race detector on every explored schedule"}
			return rep
		},
		Work: func(c *engine.Ctx, job json.RawMessage) json.RawMessage {
			return engine.WorkSchedules(c09Scenarios(), job)
		},
	})
}
