package checks

import (
	"fmt"
	"sort"

	rt "github.com/enbility/spine-go/internal/verifrt"

	"github.com/enbility/spine-go/internal/verifh/engine"
	"github.com/enbility/spine-go/internal/verifh/world"
	"github.com/enbility/spine-go/model"
)

// C09 — bindings: exact registry with at most one binding per server feature.

func c09Scenarios() []*engine.SScenario {
	lc := model.FeatureTypeTypeLoadControl
	srv := func(e uint) *model.FeatureAddressType { return world.FAddr(world.LocalAddr, []uint{e}, lLCServer) }
	// oracle shared by the scenarios: per server feature at most one binding; the
	// number of success results equals the number of registry entries created.
	judge := func(w *world.World, m world.Mark, res *rt.Result, reqs map[string][]uint64, removed int) ([]string, string) {
		v := panicsAndDeadlocks(res)
		outs := w.Since(m)
		okTotal := 0
		var dig []string
		for conn, ctrs := range reqs {
			for _, c := range ctrs {
				ok, bad := countResults(outs, conn, c)
				if ok+bad != 1 {
					v = append(v, fmt.Sprintf("binding call answered %d times | conn=%s ctr=%d ok=%d err=%d", ok+bad, conn, c, ok, bad))
				}
				okTotal += ok
				dig = append(dig, fmt.Sprintf("%s#%d:%d/%d", conn, c, ok, bad))
			}
		}
		entries := 0
		for _, e := range []uint{1, 2} {
			n := len(w.L.BindingManager().BindingsOnFeature(*srv(e)))
			entries += n
			if n > 1 {
				v = append(v, fmt.Sprintf("more than one binding on a server feature | feature=%s n=%d", world.AddrStr(srv(e)), n))
			}
			dig = append(dig, fmt.Sprintf("e%d=%d", e, n))
		}
		if okTotal-removed != entries && removed >= 0 {
			v = append(v, fmt.Sprintf("success results and registry entries differ | granted=%d removed=%d entries=%d", okTotal, removed, entries))
		}
		ids := map[uint64]bool{}
		for _, p := range w.Peers {
			for _, b := range w.L.BindingManager().Bindings(p.Dev) {
				if ids[b.Id] {
					v = append(v, "duplicate binding id")
				}
				ids[b.Id] = true
			}
		}
		sort.Strings(dig)
		return v, fmt.Sprint(dig)
	}
	mkTwo := func(name string, devA, devB bool) *engine.SScenario {
		return &engine.SScenario{Name: name, Run: func(cfg rt.Config) rt.Outcome {
			var viol []string
			var dig string
			res := rt.Execute(cfg, func() {
				w := stdWorld(false, "A", "B")
				a, b := w.Peers["A"], w.Peers["B"]
				// the device parts of the addresses are optional: requests with and without them denote the same features
				addr := func(p string, withDev bool) (*model.FeatureAddressType, *model.FeatureAddressType) {
					if withDev {
						return world.FAddr("d"+p, []uint{1}, 1), srv(1)
					}
					return world.FAddr("", []uint{1}, 1), world.FAddr("", []uint{1}, lLCServer)
				}
				ca, sa := addr("A", devA)
				cb, sb := addr("B", devB)
				da := a.BindCall(ca, sa, lc)
				db := b.BindCall(cb, sb, lc)
				m := w.Mark()
				rt.BeginExplore()
				rt.Go(func() { a.Deliver(da) })
				rt.Go(func() { b.Deliver(db) })
				rt.WaitIdle()
				rt.JoinFinished()
				viol, dig = judge(w, m, nil2(res0), map[string][]uint64{"A": {uint64(*da.Header.MsgCounter)}, "B": {uint64(*db.Header.MsgCounter)}}, 0)
			})
			return rt.Outcome{Res: res, Violations: append(viol, panicsAndDeadlocks(res)...), Digest: dig}
		}}
	}
	two := mkTwo("two-peers-bind-same-feature", true, true)
	twoB := mkTwo("two-peers-bind-same-feature (B omits the device parts)", true, false)
	twoAB := mkTwo("two-peers-bind-same-feature (both omit the device parts)", false, false)
	three := &engine.SScenario{Name: "unbind-rebind-vs-bind", Run: func(cfg rt.Config) rt.Outcome {
		var viol []string
		var dig string
		res := rt.Execute(cfg, func() {
			w := stdWorld(false, "A", "B")
			a, b := w.Peers["A"], w.Peers["B"]
			a.Deliver(a.BindCall(world.FAddr("dA", []uint{1}, 1), srv(1), lc))
			du := a.UnbindCall(world.FAddr("dA", []uint{1}, 1), srv(1))
			da := a.BindCall(world.FAddr("dA", []uint{1}, 2), srv(1), lc)
			db := b.BindCall(world.FAddr("dB", []uint{1}, 1), srv(1), lc)
			m := w.Mark()
			rt.BeginExplore()
			rt.Go(func() { a.Deliver(du); a.Deliver(da) })
			rt.Go(func() { b.Deliver(db) })
			rt.WaitIdle()
			rt.JoinFinished()
			// one entry existed before the mark and the unbind removes it
			outs := w.Since(m)
			okU, _ := countResults(outs, "A", uint64(*du.Header.MsgCounter))
			viol, dig = judge(w, m, nil2(res0), map[string][]uint64{"A": {uint64(*da.Header.MsgCounter)}, "B": {uint64(*db.Header.MsgCounter)}}, okU-1)
			dig += fmt.Sprint(" unbind=", okU)
		})
		return rt.Outcome{Res: res, Violations: append(viol, panicsAndDeadlocks(res)...), Digest: dig}
	}}
	twoFeat := &engine.SScenario{Name: "one-client-two-features-vs-other-peer", Run: func(cfg rt.Config) rt.Outcome {
		var viol []string
		var dig string
		res := rt.Execute(cfg, func() {
			w := stdWorld(false, "A", "B")
			a, b := w.Peers["A"], w.Peers["B"]
			d1 := a.BindCall(world.FAddr("dA", []uint{1}, 1), srv(1), lc)
			d2 := a.BindCall(world.FAddr("dA", []uint{1}, 1), srv(2), lc)
			db := b.BindCall(world.FAddr("dB", []uint{1}, 1), srv(2), lc)
			m := w.Mark()
			rt.BeginExplore()
			rt.Go(func() { a.Deliver(d1); a.Deliver(d2) })
			rt.Go(func() { b.Deliver(db) })
			rt.WaitIdle()
			rt.JoinFinished()
			viol, dig = judge(w, m, nil2(res0), map[string][]uint64{"A": {uint64(*d1.Header.MsgCounter), uint64(*d2.Header.MsgCounter)}, "B": {uint64(*db.Header.MsgCounter)}}, 0)
		})
		return rt.Outcome{Res: res, Violations: append(viol, panicsAndDeadlocks(res)...), Digest: dig}
	}}
	return append([]*engine.SScenario{two, twoB, twoAB, three, twoFeat}, pairMatrix("C09", false)...)
}

var res0 = &rt.Result{}

func nil2(r *rt.Result) *rt.Result { return r }

func c09Alphabet(thorough bool) []string {
	var a []string
	valid := [][3]string{{"A", "e1f1", "L1lc"}, {"A", "e1f1", "L2lc"}, {"A", "e2f1", "L1lc"}, {"B", "e1f1", "L1lc"}, {"B", "e1f1", "L2lc"}}
	if thorough {
		valid = append(valid, [3]string{"A", "e1f2", "L2lc"}, [3]string{"B", "e2f1", "L2lc"}, [3]string{"B", "e1f2", "L1lc"})
	}
	for _, v := range valid {
		a = append(a, "bind:"+v[0]+":"+v[1]+":"+v[2]+":lc:d")
	}
	a = append(a, "bind:A:e1f3:L1ms:ms:d") // another feature type, valid, independent server feature
	a = append(a, "bind:A:e1f1:L1lc:lc:n", "bind:B:e1f1:L2lc:lc:n")
	a = append(a,
		"bind:A:e1f3:L1lc:lc:d", "bind:A:e1f4:L1lc:lc:d", "bind:A:e1f9:L1lc:lc:d", "bind:A:e9f1:L1lc:lc:d",
		"bind:A:e1f1:L1cl:lc:d", "bind:A:e1f1:L1x:lc:d", "bind:A:e1f1:L9:lc:d", "bind:A:e1f1:L1lc:ms:d", "bind:B:e1f1:L1ms:lc:d",
		"bind:A:e1f1:L1lc:gen:d", "bind:A:e1f1:L1ms:gen:d") // Generic requested for features that are not Generic
	for _, v := range valid {
		a = append(a, "unbind:"+v[0]+":"+v[1]+":"+v[2]+":d")
	}
	a = append(a, "unbind:A:e1f3:L1ms:d", "unbind:A:e1f1:L1lc:n", "unbind:A:e1f9:L1lc:d", "unbind:A:e1f1:L1x:d", "unbind:B:e2f2:L2lc:d")
	// a delete whose client address names the other peer's device (same entity and feature numbers):
	// it addresses no binding of the sender and must not touch the other peer's binding
	a = append(a, "unbind:B:e1f1:L1lc:x", "unbind:A:e1f1:L2lc:x")
	// nested addresses: local sub-entity [1,1] (same feature numbers as [1]); peers' sub-entity [1,1] (same client features as [1])
	a = append(a, "bind:A:e1f1:L11lc:lc:d", "bind:B:e11f1:L1lc:lc:d", "unbind:A:e1f1:L11lc:d", "unbind:B:e11f1:L1lc:d", "bind:B:e11f1:L11lc:lc:d")
	// a write shows that authorisation follows the registry (C03 owns the details)
	a = append(a, "write:A:e1f1:L1lc:limit:ack:2", "write:B:e1f1:L2lc:limit:ack:2", "write:A:e1f1:L11lc:limit:ack:2")
	// a delete that carries only the id of the other peer's binding (no addresses)
	a = append(a, "idrm:b:B", "idrm:b:A")
	return a
}

func c09Drivers(thorough bool) []*engine.HDriver {
	extra := func(rw *regWorld, op string) []string {
		var v []string
		for _, s := range []string{"L1lc", "L2lc", "L1ms", "L11lc"} {
			if n := len(rw.w.L.BindingManager().BindingsOnFeature(*srvAddr(s, true))); n > 1 {
				v = append(v, fmt.Sprintf("more than one binding on a server feature | %s n=%d op=%s", s, n, op))
			}
		}
		return v
	}
	// a local server feature of type Generic fits every requested type; the client has to fit the REQUESTED type
	gen := []string{"bind:A:e1f1:L1gen:lc:d", "bind:B:e1f3:L1gen:ms:d", "bind:A:e1f3:L1gen:lc:d", "bind:A:e1f1:L1gen:gen:d", "bind:B:e1f4:L1gen:lc:d",
		"unbind:A:e1f1:L1gen:d", "unbind:B:e1f3:L1gen:d", "bind:A:e1f1:L1lc:lc:d", "disc:A", "reconn:A"}
	return []*engine.HDriver{regDriver("bindings", c09Alphabet(thorough), true, false, extra), regDriver("bindings-generic-server-feature", gen, true, false, extra)}
}

func init() {
	engine.Register(&engine.Check{
		ID:        "C09",
		NeedsRace: true,
		Drivers:   func(c *engine.Ctx) []*engine.HDriver { return c09Drivers(c.Thorough) },
		Run: func(c *engine.Ctx) *engine.Report {
			rep := &engine.Report{Level: "model_checking", Coverage: map[string]any{}}
			for _, d := range c09Drivers(c.Thorough) {
				st := engine.RunHistories(c, d, 64, rep)
				engine.AddHCoverage(rep, d.Name, st, len(d.Alphabet))
				rep.Coverage["closure_reached"] = st.Closure
			}
			hs, ht := rep.Coverage["states"].(int), rep.Coverage["transitions"].(int)
			hsamples := rep.Coverage["samples"]
			plan := engine.SPlan{Bounds: []int{0, 1, 2}, Race: true, RaceFuncs: []string{"BindingManager"}}
			if c.Thorough {
				plan.Bounds = []int{0, 1, 2, 3, -1}
			}
			engine.RunSchedules(c, c09Scenarios(), plan, rep)
			rep.Coverage["states"] = rep.Coverage["states"].(int) + hs
			rep.Coverage["transitions"] = rep.Coverage["transitions"].(int) + ht
			rep.Coverage["traces_validated_against_impl"] = rep.Coverage["traces_validated_against_impl"].(int) + ht
			rep.Coverage["samples"] = append(rep.Coverage["samples"].([]any), hsamples.([]any)...)
			rep.Assumptions = []string{"sequentially consistent interleavings of synchronisation operations; data races are reported separately by the race detector on every explored schedule"}
			return rep
		},
		Scenarios: func(c *engine.Ctx) []*engine.SScenario { return c09Scenarios() },
	})
}
