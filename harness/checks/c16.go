package checks

import (
	"fmt"
	"strings"
	"time"

	rt "github.com/enbility/spine-go/internal/verifrt"

	"github.com/enbility/spine-go/api"
	"github.com/enbility/spine-go/internal/verifh/engine"
	"github.com/enbility/spine-go/internal/verifh/world"
	"github.com/enbility/spine-go/model"
	"github.com/enbility/spine-go/spine"
)

// C16 — heartbeat: monotone, periodic, and stoppable.

var fnHB = model.FunctionTypeDeviceDiagnosisHeartbeatData

// hbWriter logs every heartbeat notification in the execution log.
type hbWriter struct{ world.Writer }

func (w *hbWriter) WriteShipMessageWithPayload(b []byte) {
	w.Writer.WriteShipMessageWithPayload(b)
	if rt.Active() && !rt.Aborting() {
		if i := strings.Index(string(b), `"heartbeatCounter":`); i > 0 && strings.Contains(string(b), `"notify"`) {
			var c uint64
			fmt.Sscanf(string(b)[i+len(`"heartbeatCounter":`):], "%d", &c)
			ts := ""
			if j := strings.Index(string(b), `"timestamp":"`); j > 0 {
				ts = string(b)[j+13:]
				ts = ts[:strings.Index(ts, `"`)]
			}
			to := "-"
			if j := strings.Index(string(b), `"heartbeatTimeout":"`); j > 0 {
				to = string(b)[j+20:]
				to = to[:strings.Index(to, `"`)]
			}
			rt.Mark(fmt.Sprintf("n %d %s %d %s", c, ts, rt.NowD()/time.Millisecond, to))
		}
	}
}

type hbWorld struct {
	L   *spine.DeviceLocal
	e   *spine.EntityLocal
	f   api.FeatureLocalInterface
	hm  api.HeartbeatManagerInterface
	idx int
}

func newHBWorld(timeout time.Duration, attach bool) *hbWorld {
	spine.VerifResetGlobals()
	h := &hbWorld{}
	h.L = spine.NewDeviceLocal("brand", "model", "serial", "code", world.LocalAddr, model.DeviceTypeTypeEnergyManagementSystem, model.NetworkManagementFeatureSetTypeSmart)
	h.e = spine.NewEntityLocal(h.L, model.EntityTypeTypeCEM, spine.NewAddressEntityType([]uint{1}), timeout)
	if attach {
		h.L.AddEntity(h.e)
	}
	h.f = h.e.GetOrAddFeature(model.FeatureTypeTypeDeviceDiagnosis, model.RoleTypeServer)
	h.hm = h.e.HeartbeatManager()
	if !attach {
		// an entity that was created for the device but never added to it: nobody can subscribe,
		// the stream is observed through IsHeartbeatRunning and the live ticker loop only
		return h
	}
	// peer A subscribed to the device-diagnosis server
	w := &hbWriter{}
	w.Name = "A"
	h.L.SetupRemoteDevice("A", w)
	dev := h.L.RemoteDeviceForSki("A")
	p := &world.Peer{Ski: "A", Addr: "dA", W: &w.Writer, Dev: dev}
	ents := []world.EntSpec{{Addr: []uint{1}, Type: model.EntityTypeTypeCEM, Feats: []world.FeatSpec{{Num: 1, Type: model.FeatureTypeTypeDeviceDiagnosis, Role: model.RoleTypeClient}}}}
	p.Deliver(p.DiscoveryReply(ents))
	p.Deliver(p.SubscribeCall(world.FAddr("dA", []uint{1}, 1), h.f.Address(), model.FeatureTypeTypeDeviceDiagnosis))
	return h
}

func (h *hbWorld) do(tag, op string) {
	rt.Mark("c " + tag + " " + op)
	r := ""
	switch op {
	case "Add":
		h.f.AddFunctionType(fnHB, true, false)
	case "Start":
		if err := h.hm.StartHeartbeat(); err != nil {
			r = "err"
		}
	case "Stop":
		h.hm.StopHeartbeat()
	case "IsRunning":
		r = fmt.Sprint(h.hm.IsHeartbeatRunning())
	case "Remove":
		h.L.RemoveEntity(h.e)
	case "SetLocal":
		// the feature is registered with the manager again (as applications and the repository's tests do after
		// AddFunctionType): publishes a refresh of its own, possibly while the periodic refreshes are running
		h.hm.SetLocalFeature(h.e, h.f)
	}
	rt.Mark("r " + tag + " " + op + " " + r)
}

// c16Scenario: pre is executed during set-up, threads are explored.
func c16Scenario(timeout time.Duration, pre []string, threads [][]string) *engine.SScenario {
	var ts []string
	for _, t := range threads {
		ts = append(ts, strings.Join(t, ","))
	}
	name := fmt.Sprintf("timeout=%v pre=%s threads=%s", timeout, strings.Join(pre, ","), strings.Join(ts, " | "))
	return &engine.SScenario{Name: name, TimersFree: true, MaxTicks: 3, Heavy: len(threads) > 1, Run: func(cfg rt.Config) rt.Outcome {
		var viol []string
		var dig string
		var finalRunning bool
		var finalCounter uint64
		var blockedSel int
		storedAnnounced := time.Duration(-1)
		res := rt.Execute(cfg, func() {
			attach := true
			pre := pre
			if len(pre) > 0 && pre[0] == "Detached" {
				attach, pre = false, pre[1:]
			}
			h := newHBWorld(timeout, attach)
			for i, op := range pre {
				h.do(fmt.Sprintf("p.%d", i), op)
			}
			rt.BeginExplore()
			for ti, ops := range threads {
				ti, ops := ti, ops
				rt.Go(func() {
					for oi, op := range ops {
						h.do(fmt.Sprintf("%d.%d", ti, oi), op)
					}
				})
			}
			rt.WaitIdle()
			rt.Mark("quiet")
			// horizon: let every ticker deliver its remaining ticks
			rt.Advance(6 * timeout)
			rt.WaitIdle()
			rt.JoinFinished()
			finalRunning = h.hm.IsHeartbeatRunning()
			if d, ok := h.f.DataCopy(fnHB).(*model.DeviceDiagnosisHeartbeatDataType); ok && d != nil && d.HeartbeatCounter != nil {
				finalCounter = *d.HeartbeatCounter
				if d.HeartbeatTimeout != nil {
					// (a configured timeout that is no whole multiple of 100 ms cannot be announced exactly:
					// the textual duration has tenths of a second)
					if to, err := d.HeartbeatTimeout.GetTimeDuration(); err != nil || (to != timeout && timeout%(100*time.Millisecond) == 0) {
						viol = append(viol, fmt.Sprintf("announced heartbeat timeout differs from the configured one | %v", to))
					} else if err == nil {
						storedAnnounced = to
					}
				}
			}
			for _, b := range rt.Blocked() {
				if b.Op == "select" {
					blockedSel++
				}
			}
		})
		// ---- oracle over the log
		type opRec struct {
			op        string
			call, ret int
			result    string
		}
		ops := map[string]*opRec{}
		var notif []struct {
			pos int
			ctr uint64
			ts  string
			ms  int64
		}
		quiet := -1
		announced := storedAnnounced // the smallest timeout announced in the stored data or in any notification
		var periods []time.Duration
		for i, l := range res.Log {
			f := strings.Fields(l)
			switch f[0] {
			case "c":
				ops[f[1]] = &opRec{op: f[2], call: i, ret: 1 << 30}
			case "r":
				if o := ops[f[1]]; o != nil {
					o.ret = i
					if len(f) > 3 {
						o.result = f[3]
					}
				}
			case "n":
				var c uint64
				var ms int64
				fmt.Sscan(f[1], &c)
				fmt.Sscan(f[3], &ms)
				notif = append(notif, struct {
					pos int
					ctr uint64
					ts  string
					ms  int64
				}{i, c, f[2], ms})
				if len(f) > 4 && f[4] != "-" {
					dt := model.DurationType(f[4])
					if to, err := dt.GetTimeDuration(); err == nil && (announced < 0 || to < announced) {
						announced = to
					}
				}
			case "ticker":
				d, _ := time.ParseDuration(f[1])
				periods = append(periods, d)
			case "quiet":
				quiet = i
			}
		}
		if announced < 0 {
			announced = timeout
		}
		for _, d := range periods {
			if d > announced || d > timeout {
				viol = append(viol, fmt.Sprintf("heartbeat period exceeds the announced timeout | period=%v announced=%v configured=%v", d, announced, timeout))
			}
		}
		for i := 1; i < len(notif); i++ {
			if notif[i].ctr <= notif[i-1].ctr {
				viol = append(viol, fmt.Sprintf("heartbeat counter did not strictly increase between successive notifications | %d then %d", notif[i-1].ctr, notif[i].ctr))
			}
		}
		// the timestamp is taken when the refresh starts: not after the moment the notification is
		// written and not before the previous notification was written
		prevMs := int64(0)
		for _, n := range notif {
			hi := rt.Epoch.Add(time.Duration(n.ms) * time.Millisecond).UTC().Round(time.Second).Format("2006-01-02T15:04:05Z")
			lo := rt.Epoch.Add(time.Duration(prevMs) * time.Millisecond).UTC().Round(time.Second).Format("2006-01-02T15:04:05Z")
			if n.ts > hi || n.ts < lo {
				viol = append(viol, fmt.Sprintf("heartbeat timestamp is not current | got=%s window=[%s,%s]", n.ts, lo, hi))
			}
			prevMs = n.ms
		}
		// (the removal of the entity ends the subscriptions to its features: refreshes of a stream that is started again
		// on the removed entity have no subscriber to be notified, so the clause holds for histories without removal)
		removed := false
		for _, o := range ops {
			removed = removed || o.op == "Remove"
		}
		if len(notif) > 0 && finalCounter != notif[len(notif)-1].ctr && !removed {
			viol = append(viol, fmt.Sprintf("stored heartbeat differs from the last notified one | stored=%d notified=%d", finalCounter, notif[len(notif)-1].ctr))
		}
		if blockedSel > 1 {
			viol = append(viol, fmt.Sprintf("more than one heartbeat stream is alive | streams=%d", blockedSel))
		}
		// a stop-like call S such that every start-like call had returned before S was called
		var lastStop *opRec
		for _, s := range ops {
			if s.op != "Stop" && s.op != "Remove" {
				continue
			}
			ok := true
			for _, o := range ops {
				if (o.op == "Add" || o.op == "Start" || o.op == "SetLocal") && o.ret > s.call {
					ok = false
				}
			}
			if ok && (lastStop == nil || s.ret > lastStop.ret) {
				lastStop = s
			}
		}
		if lastStop != nil && lastStop.ret < 1<<30 {
			after := 0
			for _, n := range notif {
				if n.pos > lastStop.ret {
					after++
				}
			}
			if after > 1 {
				viol = append(viol, fmt.Sprintf("more than one refresh after stop had returned | refreshes=%d", after))
			}
			if finalRunning {
				viol = append(viol, "IsHeartbeatRunning is true after stop returned and no later start")
			}
			if blockedSel > 0 {
				viol = append(viol, fmt.Sprintf("a heartbeat stream is still alive after stop returned | streams=%d", blockedSel))
			}
		}
		// running and never stopped: the stream must keep refreshing over the horizon
		started, stopped := false, false
		for _, o := range ops {
			if o.op == "Add" || o.op == "SetLocal" || (o.op == "Start" && o.result != "err") {
				started = true
			}
			if o.op == "Stop" || o.op == "Remove" {
				stopped = true
			}
		}
		if started && !stopped {
			_ = quiet
			if len(notif) < 2 || !finalRunning || blockedSel != 1 {
				viol = append(viol, fmt.Sprintf("a running heartbeat did not keep refreshing | notifications=%d running=%v streams=%d", len(notif), finalRunning, blockedSel))
			}
		}
		dig = fmt.Sprintf("notifs=%d running=%v streams=%d", len(notif), finalRunning, blockedSel)
		return rt.Outcome{Res: res, Violations: append(viol, panicsAndDeadlocks(res)...), Digest: dig}
	}}
}

func c16Scenarios(thorough bool) []*engine.SScenario {
	var scs []*engine.SScenario
	// configured timeouts: the bounds of the quantifier, both sides of the 2 s rule of the refresh period, and values
	// that are no whole multiple of 100 ms (the announced timeout is then shorter than the configured one)
	tos := []time.Duration{100 * time.Millisecond, 250 * time.Millisecond, 1550 * time.Millisecond, 2 * time.Second, 2500 * time.Millisecond, 4 * time.Second, 60 * time.Second}
	if thorough {
		tos = append(tos, 190*time.Millisecond, 1999*time.Millisecond, 2001*time.Millisecond, 2050*time.Millisecond, 3*time.Second, 30*time.Second+50*time.Millisecond)
	}
	for _, to := range tos {
		scs = append(scs, c16Scenario(to, nil, [][]string{{"Add"}}))
	}
	t4 := 4 * time.Second
	single := [][]string{{"Add", "Stop"}, {"Add", "Stop", "Start"}, {"Start"}, {"Add", "Remove"}, {"Add", "Start"}, {"Add", "Stop", "Stop"}, {"Stop"}, {"Add", "Start", "Stop"}, {"Add", "IsRunning", "Stop"}}
	for _, s := range single {
		scs = append(scs, c16Scenario(t4, nil, [][]string{s}))
	}
	// every sequential history of start, stop and entity removal after the automatic start (stopping
	// must work from every state such a history reaches, e.g. for an entity that was removed before)
	var hist [][]string
	hl := 3
	if thorough {
		hl = 4
	}
	var gen func(cur []string)
	gen = func(cur []string) {
		starts := 0
		for _, a := range cur {
			if a == "Start" {
				starts++
			}
		}
		// the ticker of a stopped stream is never stopped by the library, so every further start adds
		// a ticker thread whose ticks interleave with everything: histories are limited to one restart
		if starts > 1 {
			return
		}
		if len(cur) >= 2 {
			hist = append(hist, append([]string{}, cur...))
		}
		if len(cur) == hl {
			return
		}
		for _, a := range []string{"Start", "Stop", "Remove"} {
			gen(append(cur, a))
		}
	}
	gen(nil)
	// (state coverage: in these the ticks are delivered in time order whenever the caller is parked,
	// not at every scheduling point — the tick-versus-call races are the subject of the scenarios above and below)
	quiet := func(sc *engine.SScenario) *engine.SScenario {
		sc.TimersFree = false
		sc.Name += " (ticks in time order)"
		return sc
	}
	for _, s := range hist {
		scs = append(scs, quiet(c16Scenario(t4, []string{"Add"}, [][]string{s})))
	}
	for _, s := range [][]string{{"Remove"}, {"Stop"}, {"Remove", "Start", "Remove"}, {"Stop", "Start", "Remove"}} {
		scs = append(scs, quiet(c16Scenario(t4, []string{"Detached", "Add"}, [][]string{s})))
	}
	pairs := [][][]string{{{"Stop"}, {"Stop"}}, {{"Start"}, {"Start"}}, {{"Start"}, {"Stop"}}, {{"Stop"}, {"IsRunning"}}, {{"Remove"}, {"Start"}}, {{"Stop", "Start"}, {"Stop"}}, {{"Start"}, {"IsRunning"}}}
	if thorough {
		alpha := []string{"Start", "Stop", "Remove"}
		pairs = nil
		var seqs [][]string
		for _, a := range alpha {
			seqs = append(seqs, []string{a})
			for _, b := range alpha {
				seqs = append(seqs, []string{a, b})
			}
		}
		for _, s := range seqs {
			for _, b := range append(alpha, "IsRunning") {
				pairs = append(pairs, [][]string{s, {b}})
			}
		}
		pairs = append(pairs, [][]string{{"Stop"}, {"Stop"}, {"Start"}})
	}
	for _, p := range pairs {
		scs = append(scs, c16Scenario(t4, []string{"Add"}, p))
	}
	scs = append(scs, c16Scenario(t4, nil, [][]string{{"Add"}, {"Stop"}}), c16Scenario(t4, nil, [][]string{{"Add"}, {"Start"}}))
	// the refresh published by a re-registration against the periodic refreshes of the running stream
	scs = append(scs, c16Scenario(t4, []string{"Add"}, [][]string{{"SetLocal"}}), c16Scenario(t4, []string{"Add", "Stop"}, [][]string{{"SetLocal"}}), c16Scenario(t4, []string{"Add"}, [][]string{{"SetLocal"}, {"Stop"}}))
	return scs
}

func init() {
	engine.Register(&engine.Check{
		ID:        "C16",
		NeedsRace: true,
		Scenarios: func(c *engine.Ctx) []*engine.SScenario { return c16Scenarios(c.Thorough) },
		Run: func(c *engine.Ctx) *engine.Report {
			rep := &engine.Report{Level: "model_checking", Coverage: map[string]any{}}
			engine.RunSchedules(c, c16Scenarios(c.Thorough), engine.SPlan{Bounds: boundsFor(c, []int{0, 1, 2}, []int{0, 1, 2, 3}), Race: true, RaceMaxBound: 1, RaceFuncs: []string{"HeartbeatManager"}}, rep)
			rep.Assumptions = []string{"virtual clock: ticks and the choice between tick and stop in the heartbeat loop are scheduler decisions; horizon: 4 ticks per ticker, 6 heartbeat timeouts after the last API call"}
			return rep
		},
	})
}
