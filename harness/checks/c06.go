package checks

import (
	"fmt"
	"sort"
	"strings"

	rt "github.com/enbility/spine-go/internal/verifrt"

	"github.com/enbility/spine-go/api"
	"github.com/enbility/spine-go/internal/verifh/engine"
	"github.com/enbility/spine-go/internal/verifh/world"
	"github.com/enbility/spine-go/model"
	"github.com/enbility/spine-go/util"
)

// C06 — the remote device tree converges to what the peer announced.

var c06Ents = map[string][]uint{"1": {1}, "2": {2}, "11": {1, 1}}

// entity variants: v1 is what every peer announces initially, v2 differs in description, features and operations
func c06Entity(e string, v string) world.EntSpec {
	if v == "v1" {
		es := clientEntity(c06Ents[e])
		return es
	}
	return world.EntSpec{Addr: c06Ents[e], Type: model.EntityTypeTypeCEM, Desc: "changed entity", Feats: []world.FeatSpec{
		{Num: 1, Type: model.FeatureTypeTypeLoadControl, Role: model.RoleTypeClient, Desc: "lc client v2"},
		{Num: 4, Type: model.FeatureTypeTypeLoadControl, Role: model.RoleTypeServer, Desc: "lc server v2", Funcs: []world.FuncSpec{{Fn: fnLimit, R: true}}},
		{Num: 7, Type: model.FeatureTypeTypeMeasurement, Role: model.RoleTypeServer, Desc: "new feature", Funcs: []world.FuncSpec{{Fn: fnMeas, R: true}}},
	}}
}

func specStr(es world.EntSpec) string {
	var fs []string
	for _, f := range es.Feats {
		var fns []string
		for _, fn := range f.Funcs {
			o := "-"
			switch {
			case fn.R && fn.W:
				o = "RW"
			case fn.R:
				o = "RO"
			}
			fns = append(fns, string(fn.Fn)+"="+o)
		}
		sort.Strings(fns)
		fs = append(fs, fmt.Sprintf("%d:%s:%s:%q:%v", f.Num, f.Type, f.Role, f.Desc, fns))
	}
	sort.Strings(fs)
	return fmt.Sprintf("%v %s %q %v", es.Addr, es.Type, es.Desc, fs)
}

type c06World struct {
	rw   *regWorld
	tree map[string]map[string]world.EntSpec // peer -> entity key -> announced spec
	// every entity object the API ever handed out, per peer (an application keeps such handles, e.g. from events)
	handles map[string][]api.EntityRemoteInterface
}

// collectHandles remembers the entity objects the API reports now.
func (c *c06World) collectHandles() {
	for _, p := range []string{"A", "B"} {
	next:
		for _, e := range c.rw.w.Peers[p].Dev.Entities() {
			for _, h := range c.handles[p] {
				if h == e {
					continue next
				}
			}
			c.handles[p] = append(c.handles[p], e)
		}
	}
}

var c06TypeRoles = []struct {
	t model.FeatureTypeType
	r model.RoleType
}{{model.FeatureTypeTypeLoadControl, model.RoleTypeClient}, {model.FeatureTypeTypeLoadControl, model.RoleTypeServer},
	{model.FeatureTypeTypeMeasurement, model.RoleTypeServer}, {model.FeatureTypeTypeMeasurement, model.RoleTypeClient}}

// staleHandles: what the device reports for an entity handle, a feature type and a role is a feature of its current
// tree (the feature of that type and role of that very entity if the handle is still part of the tree), and nothing
// for an entity that was announced as removed, was replaced, or belongs to another device.
func (c *c06World) staleHandles() (viol []string) {
	for _, q := range []string{"A", "B"} {
		dev := c.rw.w.Peers[q].Dev
		current := map[api.EntityRemoteInterface]bool{}
		for _, e := range dev.Entities() {
			current[e] = true
		}
		for _, owner := range []string{"A", "B"} {
			for _, h := range c.handles[owner] {
				for _, tr := range c06TypeRoles {
					got := dev.FeatureByEntityTypeAndRole(h, tr.t, tr.r)
					if !current[h] {
						if got != nil {
							viol = append(viol, fmt.Sprintf("device %s reports a feature for an entity that is not (any more) part of its tree | entity %v of peer %s, %s/%s -> %v", q, h.Address().Entity, owner, tr.t, tr.r, got.Address()))
						}
						continue
					}
					var want api.FeatureRemoteInterface
					for _, f := range h.Features() {
						if f.Type() == tr.t && f.Role() == tr.r {
							want = f
							break
						}
					}
					if got != want {
						viol = append(viol, fmt.Sprintf("device %s: feature by entity, type and role differs from the entity's announced features | entity %v, %s/%s", q, h.Address().Entity, tr.t, tr.r))
					}
				}
			}
		}
	}
	if len(viol) > 3 {
		viol = viol[:3]
	}
	return
}

var c06Prelude = []string{"sub:A:e1f1:L1lc:lc:d", "sub:A:e2f1:L2lc:lc:d", "sub:B:e1f1:L1lc:lc:d", "bind:A:e1f2:L1lc:lc:d", "bind:B:e1f1:L2lc:lc:d",
	// client-side references of the local features towards the same entity numbers on both peers
	"lsub:1:A:1", "lbind:1:A:2", "lsub:1:B:1", "lsub:2:A:2", "lbind:1:B:2", "lbind:2:A:1", "lbind:2:B:1", "lsub:2:B:2"}

func newC06World() *c06World {
	c := &c06World{rw: newRegWorld(true, false), tree: map[string]map[string]world.EntSpec{}, handles: map[string][]api.EntityRemoteInterface{}}
	c.rw.evOn = true
	rt.WaitIdle()
	for _, p := range []string{"A", "B"} {
		c.tree[p] = map[string]world.EntSpec{"1": c06Entity("1", "v1"), "2": c06Entity("2", "v1")}
	}
	for _, op := range c06Prelude {
		c.rw.apply(op, false)
	}
	c.collectHandles()
	return c
}

// implTree renders what the API reports for a peer.
func (c *c06World) implTree(p string) []string {
	dev := c.rw.w.Peers[p].Dev
	var out []string
	for _, e := range dev.Entities() {
		if fmt.Sprint(e.Address().Entity) == "[0]" {
			continue
		}
		desc := ""
		if e.Description() != nil {
			desc = string(*e.Description())
		}
		var fs []string
		for _, f := range e.Features() {
			var fns []string
			for fn, o := range f.Operations() {
				fns = append(fns, string(fn)+"="+o.String())
			}
			sort.Strings(fns)
			d := ""
			if f.Description() != nil {
				d = string(*f.Description())
			}
			fs = append(fs, fmt.Sprintf("%d:%s:%s:%q:%v", uint(*f.Address().Feature), f.Type(), f.Role(), d, fns))
			// the feature resolves by its address and the entity by its address
			if dev.FeatureByAddress(f.Address()) != f {
				fs = append(fs, "UNRESOLVABLE")
			}
		}
		// ... and no other feature number of this entity resolves to anything (a feature that was withdrawn by a
		// later announcement is gone)
		present := map[uint]bool{}
		for _, f := range e.Features() {
			present[uint(*f.Address().Feature)] = true
		}
		for n := uint(0); n <= 9; n++ {
			if present[n] {
				continue
			}
			fa := &model.FeatureAddressType{Device: e.Address().Device, Entity: e.Address().Entity, Feature: util.Ptr(model.AddressFeatureType(n))}
			if dev.FeatureByAddress(fa) != nil || e.FeatureOfAddress(fa.Feature) != nil {
				fs = append(fs, fmt.Sprintf("PHANTOM-FEATURE-%d", n))
			}
		}
		sort.Strings(fs)
		if dev.Entity(e.Address().Entity) != e {
			fs = append(fs, "ENTITY-UNRESOLVABLE")
		}
		dv := "-"
		if e.Address().Device != nil {
			dv = string(*e.Address().Device)
		}
		out = append(out, fmt.Sprintf("%s%v %s %q %v", dv, e.Address().Entity, e.EntityType(), desc, fs))
	}
	sort.Strings(out)
	return out
}

func (c *c06World) refTree(p string) []string {
	var out []string
	for _, es := range c.tree[p] {
		out = append(out, "d"+p+specStr(es))
	}
	sort.Strings(out)
	return out
}

func (c *c06World) notify(p string, ents []world.EntSpec, states []model.NetworkManagementStateChangeType, partial bool) {
	pe := c.rw.w.Peers[p]
	dd := pe.DiscoveryData(nil, !partial, nil)
	for i, es := range ents {
		var st *model.NetworkManagementStateChangeType
		if partial {
			st = &states[i]
		}
		one := pe.DiscoveryData([]world.EntSpec{es}, false, st)
		if partial && states[i] == model.NetworkManagementStateChangeTypeRemoved {
			one.FeatureInformation = nil
		}
		dd.EntityInformation = append(dd.EntityInformation, one.EntityInformation...)
		dd.FeatureInformation = append(dd.FeatureInformation, one.FeatureInformation...)
	}
	cmd := model.CmdType{NodeManagementDetailedDiscoveryData: dd}
	if partial {
		cmd.Function = util.Ptr(model.FunctionTypeNodeManagementDetailedDiscoveryData)
		cmd.Filter = []model.FilterType{*model.NewFilterTypePartial()}
	}
	pe.Deliver(pe.Datagram(pe.NM(), world.LocalNM(), model.CmdClassifierTypeNotify, false, nil, cmd))
}

func (c *c06World) apply(op string, judge bool) (viol []string, digest string, effect bool) {
	f := strings.Split(op, ":")
	p := f[1]
	m := c.rw.m
	mark := c.rw.w.Mark()
	added, removed := 0, 0
	add := func(e, v string) world.EntSpec {
		es := c06Entity(e, v)
		if _, ok := c.tree[p][e]; !ok {
			added++
		}
		c.tree[p][e] = es
		if e == "1" || e == "2" {
			m.ents[p][c06Ents[e][0]] = true
		}
		return es
	}
	rmv := func(e string) world.EntSpec {
		if _, ok := c.tree[p][e]; ok {
			removed++
			delete(c.tree[p], e)
			// cascade in the reference registry: exactly the entries whose client feature lies in (p, e)
			if e == "1" || e == "2" {
				en := c06Ents[e][0]
				delete(m.ents[p], en)
				m.subs, _ = dropWhere(m.subs, func(x regEntry) bool { return x.peer == p && clientVar(x.c).ent[0] == en })
				m.binds, _ = dropWhere(m.binds, func(x regEntry) bool { return x.peer == p && clientVar(x.c).ent[0] == en })
				for _, l := range []uint{1, 2} {
					delete(m.lsubs, fmt.Sprintf("L%d|%s|%d", l, p, en))
					delete(m.lbinds, fmt.Sprintf("L%d|%s|%d", l, p, en))
				}
			}
		}
		return world.EntSpec{Addr: c06Ents[e], Type: model.EntityTypeTypeCEM}
	}
	A, R := model.NetworkManagementStateChangeTypeAdded, model.NetworkManagementStateChangeTypeRemoved
	switch f[0] {
	case "add":
		c.notify(p, []world.EntSpec{add(f[2], f[3])}, []model.NetworkManagementStateChangeType{A}, true)
	case "rm":
		c.notify(p, []world.EntSpec{rmv(f[2])}, []model.NetworkManagementStateChangeType{R}, true)
	case "add2":
		c.notify(p, []world.EntSpec{add(f[2], "v1"), add(f[3], "v2")}, []model.NetworkManagementStateChangeType{A, A}, true)
	case "rm2":
		c.notify(p, []world.EntSpec{rmv(f[2]), rmv(f[3])}, []model.NetworkManagementStateChangeType{R, R}, true)
	case "addrm":
		c.notify(p, []world.EntSpec{add(f[2], "v1"), rmv(f[3])}, []model.NetworkManagementStateChangeType{A, R}, true)
	case "rmadd":
		c.notify(p, []world.EntSpec{rmv(f[2]), add(f[3], "v1")}, []model.NetworkManagementStateChangeType{R, A}, true)
	case "full":
		want := map[string]bool{}
		var ents []world.EntSpec
		if f[2] != "" {
			for _, e := range strings.Split(f[2], ",") {
				want[e] = true
			}
		}
		for _, e := range []string{"1", "11", "2"} {
			if want[e] {
				ents = append(ents, add(e, f[3]))
			} else {
				rmv(e)
			}
		}
		c.notify(p, ents, nil, false)
	}
	rt.WaitIdle()
	rt.JoinFinished()
	effect = added+removed > 0
	digest = fmt.Sprintf("%s:+%d-%d", f[0], added, removed)
	defer c.collectHandles()
	if !judge {
		return nil, digest, effect
	}
	viol = append(viol, c.staleHandles()...)
	for _, q := range []string{"A", "B"} {
		it, rf := c.implTree(q), c.refTree(q)
		if strings.Join(it, "\n") != strings.Join(rf, "\n") {
			// a full notification that re-describes entities which already existed: identify the input precisely
			if f[0] == "full" && q == p && sameAddresses(it, rf) {
				var stale []string
				for i := range it {
					if it[i] != rf[i] {
						stale = append(stale, rf[i][:strings.Index(rf[i], "]")+1])
					}
				}
				viol = append(viol, fmt.Sprintf("!a full notification does not refresh the description, features and operations of entities that already exist: %s announced as %s, stale: %s | peer=%s\n want=%v\n got=%v", f[2], f[3], strings.Join(stale, ","), q, rf, it))
				continue
			}
			viol = append(viol, fmt.Sprintf("the remote tree the API reports differs from the announcements | op=%s peer=%s\n want=%v\n got=%v", op, q, rf, it))
		}
	}
	evs := c.rw.w.EventsSince(mark)
	if n := evCount(evs, api.EventTypeEntityChange, api.ElementChangeAdd); n != added {
		viol = append(viol, fmt.Sprintf("entity-added events: %d, entities that appeared: %d | op=%s", n, added, op))
	}
	if n := evCount(evs, api.EventTypeEntityChange, api.ElementChangeRemove); n != removed {
		viol = append(viol, fmt.Sprintf("entity-removed events: %d, entities that disappeared: %d | op=%s", n, removed, op))
	}
	// (responses to the notification are C01's subject)
	return
}

func c06Alphabet(thorough bool) []string {
	a := []string{"add:A:11:v1", "add:A:1:v2", "add:A:2:v1", "rm:A:1", "rm:A:2", "rm:A:11", "rm:B:1", "add:B:11:v2",
		"add2:A:11:2", "rm2:A:1:2", "addrm:A:11:1", "addrm:A:1:2", "rmadd:A:2:11",
		"full:A::v1", "full:A:1:v1", "full:A:1,2:v1", "full:A:1,11:v1", "full:A:2:v2", "full:A:1,11,2:v1", "full:B:2:v1"}
	if thorough {
		a = append(a, "add:A:1:v1", "add:A:2:v2", "add:B:1:v2", "rm:B:2", "rm:B:11", "rm2:A:11:1", "addrm:A:2:11", "rmadd:A:1:1", "full:A:11:v2", "full:A:11,2:v1", "full:B::v1", "full:B:1,2:v2", "addrm:B:11:1")
	}
	return a
}

func c06Drivers(thorough bool) []*engine.HDriver {
	return []*engine.HDriver{{Name: "remote-tree", Alphabet: c06Alphabet(thorough), Step: func(hist []string, op string) engine.HStep {
		c := newC06World()
		for _, h := range hist {
			c.apply(h, false)
		}
		var st engine.HStep
		if op != "" {
			st.Violations, st.Digest, st.Effect = c.apply(op, true)
		}
		impl, ref := c.rw.dump()
		tree := strings.Join(c.implTree("A"), ";") + " || " + strings.Join(c.implTree("B"), ";")
		st.Key = tree + " ## " + impl
		if impl != ref {
			st.Violations = append(st.Violations, stateDiff(impl, ref)+" | op="+op)
			st.Cut = true
		}
		if tree != strings.Join(c.refTree("A"), ";")+" || "+strings.Join(c.refTree("B"), ";") {
			st.Cut = true
		}
		return st
	}}}
}

// c06Scenarios: "removing an entity removes that entity's subscriptions, bindings and cached
// references and nothing else" while another peer's registry messages are processed concurrently
// (each peer's connection delivers from its own goroutine): the outcome must be that of some
// sequential order of the messages (see conc.go).
func c06Scenarios(thorough bool) []*engine.SScenario {
	pre := teardownPrelude
	scs := []*engine.SScenario{
		linScenario(pre, [][]string{{"entrm:A:1"}, {"sub:B:e2f1:L1lc:lc:d"}}, []string{"set:L1lc:2", "set:L2lc:2"}),
		linScenario(pre, [][]string{{"entrm:A:1"}, {"unsub:B:e1f1:L1lc:d"}}, []string{"set:L1lc:2", "set:L2lc:2"}),
		linScenario(pre, [][]string{{"entrm:A:1"}, {"unbind:B:e1f1:L2lc:d", "bind:B:e1f2:L2lc:lc:d"}}, []string{"write:B:e1f1:L2lc:limit:ack:2", "write:B:e1f2:L2lc:limit:ack:2"}),
		linScenario(pre, [][]string{{"entrm:A:1"}, {"entrm:B:1"}}, []string{"set:L1lc:2", "set:L2lc:2"}),
	}
	if thorough {
		scs = append(scs,
			linScenario(pre, [][]string{{"entrm:A:1", "entrm:A:2"}, {"sub:B:e2f1:L1lc:lc:d", "unsub:B:e1f1:L1lc:d"}}, []string{"set:L1lc:2", "set:L2lc:2"}),
			linScenario(pre, [][]string{{"entrm:A:2"}, {"sub:A:e1f2:L2lc:lc:d"}, {"sub:B:e2f1:L2lc:lc:d"}}, []string{"set:L1lc:2", "set:L2lc:2"}))
	}
	return scs
}

func init() {
	engine.Register(&engine.Check{
		ID:        "C06",
		NeedsRace: true,
		Drivers:   func(c *engine.Ctx) []*engine.HDriver { return c06Drivers(c.Thorough) },
		Scenarios: func(c *engine.Ctx) []*engine.SScenario { return c06Scenarios(c.Thorough) },
		Run: func(c *engine.Ctx) *engine.Report {
			rep := &engine.Report{Level: "model_checking", Coverage: map[string]any{"exhaustive": true}}
			for _, d := range c06Drivers(c.Thorough) {
				depth := 3
				if c.Thorough {
					depth = 4
				}
				st := engine.RunHistories(c, d, depth, rep)
				engine.AddHCoverage(rep, d.Name, st, len(d.Alphabet))
				rep.Coverage["closure_reached"] = st.Closure
				rep.Coverage["max_depth"] = st.MaxDepth
			}
			mergeS(c, rep, c06Scenarios(c.Thorough), engine.SPlan{Bounds: boundsFor(c, []int{0, 1, 2}, []int{0, 1, 2, 3}), Race: true, RaceMaxBound: 1, RaceFuncs: []string{"SubscriptionManager", "BindingManager", "DeviceRemote", "EntityRemote"}})
			rep.Assumptions = []string{"every history starts after subscriptions and bindings of A[1], A[2], B[1] and local client subscriptions/bindings towards A and B; entity types per address are fixed; what a second discovery reply does is not judged"}
			return rep
		},
	})
}

// sameAddresses: both renderings list the same entity addresses (first token of each line).
func sameAddresses(a, b []string) bool {
	if len(a) != len(b) {
		return false
	}
	for i := range a {
		if a[i][:strings.Index(a[i], "]")+1] != b[i][:strings.Index(b[i], "]")+1] {
			return false
		}
	}
	return true
}
