// Package world builds the small closed world all harnesses share (DESIGN.md
// 2.7): one local device, peers A, B (, C) that deliberately use identical
// entity and feature numbers, recording writers, an event recorder, datagram
// builders and canonical dumps. Only the public API of spine-go is used, plus
// the read-only dumps injected through the overlay.
package world

import (
	"encoding/json"
	"fmt"
	"strings"
	"time"
	"unsafe"

	rt "github.com/enbility/spine-go/internal/verifrt"

	"github.com/enbility/spine-go/api"
	"github.com/enbility/spine-go/model"
	"github.com/enbility/spine-go/spine"
	"github.com/enbility/spine-go/util"
)

const LocalAddr = "dL"

// ---------------------------------------------------------------- writer

// Writer records every datagram the stack writes to one connection. A write is
// an externally observable event and therefore a scheduling point on the
// connection object.
type Writer struct {
	Name string
	msgs [][]byte
	// OnWrite, when set, is called with every message after it was recorded, on the writing goroutine: a peer
	// that reacts while the write call is still in progress (a loop-back connection inside one process, or
	// simply a fast peer) is modelled by delivering its answer from here or by releasing another thread.
	OnWrite func(b []byte)
}

func (w *Writer) WriteShipMessageWithPayload(b []byte) {
	if rt.Active() && !rt.Aborting() {
		rt.IO(unsafe.Pointer(w))
	}
	w.record(b)
	if f := w.onWrite(); f != nil && !rt.Aborting() {
		f(b)
	}
}

//go:norace
func (w *Writer) onWrite() func(b []byte) { return w.OnWrite }

//go:norace
func (w *Writer) record(b []byte) { w.msgs = append(w.msgs, b) }

//go:norace
func (w *Writer) Len() int { return len(w.msgs) }

//go:norace
func (w *Writer) raw(i int) []byte { return w.msgs[i] }

// Datagrams decodes everything written from index from on.
func (w *Writer) Datagrams(from int) []model.DatagramType {
	var out []model.DatagramType
	for i := from; i < w.Len(); i++ {
		var d model.Datagram
		if err := json.Unmarshal(w.raw(i), &d); err != nil {
			panic(fmt.Sprintf("harness: stack wrote undecodable datagram: %v", err))
		}
		out = append(out, d.Datagram)
	}
	return out
}

// Raw returns the raw bytes of message i.
func (w *Writer) Raw(i int) []byte { return w.raw(i) }

// ---------------------------------------------------------------- specs

type FuncSpec struct {
	Fn   model.FunctionType
	R, W bool
}

type FeatSpec struct {
	Num   uint
	Type  model.FeatureTypeType
	Role  model.RoleType
	Desc  string
	Funcs []FuncSpec
}

type EntSpec struct {
	Addr  []uint
	Type  model.EntityTypeType
	Desc  string
	Feats []FeatSpec
}

// ---------------------------------------------------------------- world

type Peer struct {
	Ski  string
	Addr string
	W    *Writer
	Dev  api.DeviceRemoteInterface
	ctr  uint64
	Ents []EntSpec
	Wd   *World
}

type EventRec struct {
	Ski     string
	Type    api.EventType
	Change  api.ElementChangeType
	Entity  string
	Feature string
	Local   string
	Fn      model.FunctionType
	Data    any
}

func (e EventRec) String() string {
	return fmt.Sprintf("%s:%v/%v e=%s f=%s l=%s fn=%s", e.Ski, e.Type, e.Change, e.Entity, e.Feature, e.Local, e.Fn)
}

type World struct {
	L       *spine.DeviceLocal
	Peers   map[string]*Peer
	Writers []*Writer // every writer ever handed to the stack (a reconnect creates "A#2", ...)
	events  []EventRec
	rec     *recorder
}

type recorder struct{ w *World }

func (r *recorder) HandleEvent(p api.EventPayload) { r.w.addEvent(p) }

//go:norace
func (w *World) addEvent(p api.EventPayload) {
	e := EventRec{Ski: p.Ski, Type: p.EventType, Change: p.ChangeType, Fn: p.Function, Data: p.Data}
	if p.Entity != nil {
		e.Entity = EntAddrStr(p.Entity.Address())
	}
	if p.Feature != nil {
		e.Feature = AddrStr(p.Feature.Address())
	}
	if p.LocalFeature != nil {
		e.Local = AddrStr(p.LocalFeature.Address())
	}
	w.events = append(w.events, e)
}

// Events returns the events recorded from index from on.
//
//go:norace
func (w *World) Events(from int) []EventRec {
	out := make([]EventRec, 0, len(w.events)-from)
	for i := from; i < len(w.events); i++ {
		out = append(out, w.events[i])
	}
	return out
}

//go:norace
func (w *World) NEvents() int { return len(w.events) }

// New creates the local device. recordEvents subscribes an application-level
// recorder to the event bus (each event then runs a handler thread).
func New(recordEvents bool) *World {
	spine.VerifResetGlobals()
	w := &World{Peers: map[string]*Peer{}}
	w.L = spine.NewDeviceLocal("brand", "model", "serial", "code", LocalAddr,
		model.DeviceTypeTypeEnergyManagementSystem, model.NetworkManagementFeatureSetTypeSmart)
	if recordEvents {
		w.rec = &recorder{w: w}
		_ = spine.Events.Subscribe(w.rec)
	}
	return w
}

// AddLocalEntity creates and adds a local entity.
func (w *World) AddLocalEntity(addr []uint, et model.EntityTypeType, hb time.Duration) *spine.EntityLocal {
	e := spine.NewEntityLocal(w.L, et, spine.NewAddressEntityType(addr), hb)
	w.L.AddEntity(e)
	return e
}

// AddLocalFeature adds a feature with the given functions to a local entity.
func AddLocalFeature(e api.EntityLocalInterface, ft model.FeatureTypeType, role model.RoleType, funcs ...FuncSpec) api.FeatureLocalInterface {
	f := e.GetOrAddFeature(ft, role)
	for _, fn := range funcs {
		f.AddFunctionType(fn.Fn, fn.R, fn.W)
	}
	return f
}

// Connect sets up a connection for a peer (the stack sends its discovery read).
func (w *World) Connect(ski, addr string) *Peer {
	name := ski
	n := 1
	for _, x := range w.Writers {
		if x.Name == ski || strings.HasPrefix(x.Name, ski+"#") {
			n++
		}
	}
	if n > 1 {
		name = fmt.Sprintf("%s#%d", ski, n)
	}
	p := &Peer{Ski: ski, Addr: addr, W: &Writer{Name: name}, Wd: w}
	w.Writers = append(w.Writers, p.W)
	w.L.SetupRemoteDevice(ski, p.W)
	p.Dev = w.L.RemoteDeviceForSki(ski)
	w.Peers[ski] = p
	return p
}

// ConnectAndAnnounce connects a peer and delivers its detailed-discovery reply.
func (w *World) ConnectAndAnnounce(ski, addr string, ents []EntSpec) *Peer {
	p := w.Connect(ski, addr)
	p.Ents = ents
	p.Deliver(p.DiscoveryReply(ents))
	return p
}

// ---------------------------------------------------------------- addresses

func FAddr(dev string, ent []uint, feat uint) *model.FeatureAddressType {
	a := &model.FeatureAddressType{Entity: spine.NewAddressEntityType(ent), Feature: util.Ptr(model.AddressFeatureType(feat))}
	if dev != "" {
		a.Device = util.Ptr(model.AddressDeviceType(dev))
	}
	return a
}

func AddrStr(a *model.FeatureAddressType) string {
	if a == nil {
		return "<nil>"
	}
	d := "-"
	if a.Device != nil {
		d = string(*a.Device)
	}
	f := "-"
	if a.Feature != nil {
		f = fmt.Sprint(uint(*a.Feature))
	}
	return fmt.Sprintf("%s%v/%s", d, a.Entity, f)
}

func EntAddrStr(a *model.EntityAddressType) string {
	if a == nil {
		return "<nil>"
	}
	d := "-"
	if a.Device != nil {
		d = string(*a.Device)
	}
	return fmt.Sprintf("%s%v", d, a.Entity)
}

// ---------------------------------------------------------------- datagrams

func (p *Peer) next() *model.MsgCounterType {
	p.ctr++
	c := model.MsgCounterType(p.ctr)
	return &c
}

// SetCounter sets the peer's own message counter (next message gets c+1).
func (p *Peer) SetCounter(c uint64) { p.ctr = c }

// Counter returns the counter of the last datagram built.
func (p *Peer) Counter() uint64 { return p.ctr }

// Datagram builds a datagram from one of the peer's features to a local one.
func (p *Peer) Datagram(src, dst *model.FeatureAddressType, cl model.CmdClassifierType, ack bool, ref *model.MsgCounterType, cmd model.CmdType) model.DatagramType {
	h := model.HeaderType{
		SpecificationVersion: util.Ptr(model.SpecificationVersionType("1.3.0")),
		AddressSource:        src,
		AddressDestination:   dst,
		MsgCounter:           p.next(),
		MsgCounterReference:  ref,
		CmdClassifier:        &cl,
	}
	if ack {
		h.AckRequest = util.Ptr(true)
	}
	return model.DatagramType{Header: h, Payload: model.PayloadType{Cmd: []model.CmdType{cmd}}}
}

// Deliver hands a datagram to the stack as the peer's connection would.
func (p *Peer) Deliver(d model.DatagramType) error {
	b, err := json.Marshal(model.Datagram{Datagram: d})
	if err != nil {
		panic(err)
	}
	_, err = p.Dev.HandleSpineMesssage(b)
	return err
}

// DeliverRaw hands raw bytes to the stack.
func (p *Peer) DeliverRaw(b []byte) error {
	_, err := p.Dev.HandleSpineMesssage(b)
	return err
}

func (p *Peer) NM() *model.FeatureAddressType { return FAddr(p.Addr, []uint{0}, 0) }
func LocalNM() *model.FeatureAddressType      { return FAddr(LocalAddr, []uint{0}, 0) }

func ops(r, w bool) *model.PossibleOperationsType {
	o := &model.PossibleOperationsType{}
	if r {
		o.Read = &model.PossibleOperationsReadType{}
	}
	if w {
		o.Write = &model.PossibleOperationsWriteType{}
	}
	return o
}

// DiscoveryData builds the announcement of the given entities (entity [0] with
// node management is always included when withRoot is set).
func (p *Peer) DiscoveryData(ents []EntSpec, withRoot bool, state *model.NetworkManagementStateChangeType) *model.NodeManagementDetailedDiscoveryDataType {
	d := &model.NodeManagementDetailedDiscoveryDataType{
		SpecificationVersionList: &model.NodeManagementSpecificationVersionListType{
			SpecificationVersion: []model.SpecificationVersionDataType{"1.3.0"},
		},
		DeviceInformation: &model.NodeManagementDetailedDiscoveryDeviceInformationType{
			Description: &model.NetworkManagementDeviceDescriptionDataType{
				DeviceAddress:     &model.DeviceAddressType{Device: util.Ptr(model.AddressDeviceType(p.Addr))},
				DeviceType:        util.Ptr(model.DeviceTypeTypeGeneric),
				NetworkFeatureSet: util.Ptr(model.NetworkManagementFeatureSetTypeSmart),
			},
		},
	}
	all := ents
	if withRoot {
		root := EntSpec{Addr: []uint{0}, Type: model.EntityTypeTypeDeviceInformation, Feats: []FeatSpec{
			{Num: 0, Type: model.FeatureTypeTypeNodeManagement, Role: model.RoleTypeSpecial, Funcs: []FuncSpec{
				{Fn: model.FunctionTypeNodeManagementDetailedDiscoveryData, R: true},
				{Fn: model.FunctionTypeNodeManagementUseCaseData, R: true},
				{Fn: model.FunctionTypeNodeManagementSubscriptionRequestCall},
				{Fn: model.FunctionTypeNodeManagementBindingRequestCall},
			}},
		}}
		all = append([]EntSpec{root}, ents...)
	}
	for _, e := range all {
		et := e.Type
		ed := &model.NetworkManagementEntityDescriptionDataType{
			EntityAddress:   &model.EntityAddressType{Device: util.Ptr(model.AddressDeviceType(p.Addr)), Entity: spine.NewAddressEntityType(e.Addr)},
			EntityType:      &et,
			LastStateChange: state,
		}
		if e.Desc != "" {
			ed.Description = util.Ptr(model.DescriptionType(e.Desc))
		}
		d.EntityInformation = append(d.EntityInformation, model.NodeManagementDetailedDiscoveryEntityInformationType{Description: ed})
		for _, f := range e.Feats {
			ft, role := f.Type, f.Role
			fd := &model.NetworkManagementFeatureDescriptionDataType{
				FeatureAddress: FAddr(p.Addr, e.Addr, f.Num),
				FeatureType:    &ft,
				Role:           &role,
			}
			if f.Desc != "" {
				fd.Description = util.Ptr(model.DescriptionType(f.Desc))
			}
			for _, fn := range f.Funcs {
				fnn := fn.Fn
				fd.SupportedFunction = append(fd.SupportedFunction, model.FunctionPropertyType{Function: &fnn, PossibleOperations: ops(fn.R, fn.W)})
			}
			d.FeatureInformation = append(d.FeatureInformation, model.NodeManagementDetailedDiscoveryFeatureInformationType{Description: fd})
		}
	}
	return d
}

// DiscoveryReply is the reply to the stack's initial discovery read.
func (p *Peer) DiscoveryReply(ents []EntSpec) model.DatagramType {
	var ref *model.MsgCounterType
	for _, d := range p.W.Datagrams(0) {
		if d.Header.CmdClassifier != nil && *d.Header.CmdClassifier == model.CmdClassifierTypeRead &&
			len(d.Payload.Cmd) > 0 && d.Payload.Cmd[0].NodeManagementDetailedDiscoveryData != nil {
			ref = d.Header.MsgCounter
		}
	}
	cmd := model.CmdType{NodeManagementDetailedDiscoveryData: p.DiscoveryData(ents, true, nil)}
	return p.Datagram(p.NM(), LocalNM(), model.CmdClassifierTypeReply, false, ref, cmd)
}

// SubscribeCall builds a subscription request call.
func (p *Peer) SubscribeCall(client, server *model.FeatureAddressType, ft model.FeatureTypeType) model.DatagramType {
	cmd := model.CmdType{NodeManagementSubscriptionRequestCall: spine.NewNodeManagementSubscriptionRequestCallType(client, server, ft)}
	return p.Datagram(p.NM(), LocalNM(), model.CmdClassifierTypeCall, true, nil, cmd)
}

func (p *Peer) UnsubscribeCall(client, server *model.FeatureAddressType) model.DatagramType {
	cmd := model.CmdType{NodeManagementSubscriptionDeleteCall: spine.NewNodeManagementSubscriptionDeleteCallType(client, server)}
	return p.Datagram(p.NM(), LocalNM(), model.CmdClassifierTypeCall, true, nil, cmd)
}

func (p *Peer) BindCall(client, server *model.FeatureAddressType, ft model.FeatureTypeType) model.DatagramType {
	cmd := model.CmdType{NodeManagementBindingRequestCall: spine.NewNodeManagementBindingRequestCallType(client, server, ft)}
	return p.Datagram(p.NM(), LocalNM(), model.CmdClassifierTypeCall, true, nil, cmd)
}

func (p *Peer) UnbindCall(client, server *model.FeatureAddressType) model.DatagramType {
	cmd := model.CmdType{NodeManagementBindingDeleteCall: spine.NewNodeManagementBindingDeleteCallType(client, server)}
	return p.Datagram(p.NM(), LocalNM(), model.CmdClassifierTypeCall, true, nil, cmd)
}

// ---------------------------------------------------------------- observation

// Out is a canonical, comparable rendering of one outbound datagram.
type Out struct {
	Conn   string
	Class  string
	Src    string
	Dst    string
	Ctr    uint64
	Ref    int64 // -1: none
	Ack    bool
	Fn     string // payload field name
	Err    int64  // result: error number, -1 if not a result
	Filter string
	Cmd    model.CmdType `json:"-"`
}

func (o Out) String() string {
	s := fmt.Sprintf("%s>%s %s->%s fn=%s", o.Conn, o.Class, o.Src, o.Dst, o.Fn)
	if o.Ref >= 0 {
		s += fmt.Sprintf(" ref=%d", o.Ref)
	}
	if o.Err >= 0 {
		s += fmt.Sprintf(" err=%d", o.Err)
	}
	if o.Ack {
		s += " ack"
	}
	if o.Filter != "" {
		s += " filter=" + o.Filter
	}
	return s
}

func Canon(conn string, d model.DatagramType) Out {
	o := Out{Conn: conn, Ref: -1, Err: -1, Src: AddrStr(d.Header.AddressSource), Dst: AddrStr(d.Header.AddressDestination)}
	if d.Header.CmdClassifier != nil {
		o.Class = string(*d.Header.CmdClassifier)
	}
	if d.Header.MsgCounter != nil {
		o.Ctr = uint64(*d.Header.MsgCounter)
	}
	if d.Header.MsgCounterReference != nil {
		o.Ref = int64(*d.Header.MsgCounterReference)
	}
	if d.Header.AckRequest != nil && *d.Header.AckRequest {
		o.Ack = true
	}
	if len(d.Payload.Cmd) > 0 {
		c := d.Payload.Cmd[0]
		o.Cmd = c
		o.Fn = c.DataName()
		if c.ResultData != nil && c.ResultData.ErrorNumber != nil {
			o.Err = int64(*c.ResultData.ErrorNumber)
		}
		var fs []string
		for _, f := range c.Filter {
			if f.CmdControl != nil && f.CmdControl.Partial != nil {
				fs = append(fs, "partial")
			}
			if f.CmdControl != nil && f.CmdControl.Delete != nil {
				fs = append(fs, "delete")
			}
		}
		o.Filter = strings.Join(fs, "+")
	}
	return o
}

// Mark remembers the current length of every writer and of the event log.
type Mark struct {
	w  []int
	ev int
}

func (w *World) Mark() Mark {
	m := Mark{ev: w.NEvents()}
	for _, x := range w.Writers {
		m.w = append(m.w, x.Len())
	}
	return m
}

// Since returns everything written on any connection (including connections
// that have been removed meanwhile) since the mark, in per-connection order.
func (w *World) Since(m Mark) []Out {
	var out []Out
	for i, x := range w.Writers {
		from := 0
		if i < len(m.w) {
			from = m.w[i]
		}
		for _, d := range x.Datagrams(from) {
			out = append(out, Canon(x.Name, d))
		}
	}
	return out
}

func (w *World) EventsSince(m Mark) []EventRec { return w.Events(m.ev) }

// JSON renders any value canonically (encoding/json sorts map keys).
func JSON(v any) string {
	b, err := json.Marshal(v)
	if err != nil {
		return "!" + err.Error()
	}
	return string(b)
}
